#!/venv/bin/python
"""Developer tool: run a batch and list violation signatures with counts (no shrinking)."""
import os, sys, collections
if os.environ.get("PYTHONHASHSEED") != "0":
    os.environ["PYTHONHASHSEED"] = "0"; os.execv(sys.executable, [sys.executable] + sys.argv)
sys.path.insert(0, os.path.dirname(os.path.abspath(__file__)))
from sim import engine
prop = sys.argv[1]; n = int(sys.argv[2]); tier = sys.argv[3] if len(sys.argv) > 3 else "quick"
seed = int(os.environ.get("VERIF_SEED", "1"))
import time; t0=time.time()
agg = engine.run_batch(prop, tier, seed, n, int(os.environ.get("VERIF_JOBS", "16")))
c = collections.Counter(v["signature"] for v in agg["violations"])
first = {}
for v in agg["violations"]:
    first.setdefault(v["signature"], v)
for sig, k in sorted(c.items(), key=lambda x: -x[1]):
    print("%5d  %s\n         %s" % (k, sig, first[sig]["message"][:300]))
print("violating_runs", len(agg["violations"]) + agg["stats"].get("violations_not_kept", 0))
print("runs", agg["runs"], "nontrivial", agg["nontrivial_runs"], "distinct", len(agg["hashes"]), "cells", len(agg["cells"]), "errors", len(agg["errors"]), "wall %.1f" % (time.time()-t0))
for e in agg["errors"][:2]: print(e[1])
print({k: v for k, v in agg["stats"].items() if not k.startswith("op:")})
