#!/usr/bin/env python3
"""Regenerates /verif/MANIFEST.json (kept valid at all times; validated with jsonschema when present)."""
import json
import os

HERE = os.path.dirname(os.path.abspath(__file__))

NA = {
    "C06": "Pure function of its input (Update.construct then Update.parse over values and a mode flag): no schedule, clock, fault or history can influence it; not a simulation target (DESIGN.md section 6). Incidental: two encoder defects that reach the wire through REST sends (dropped withdrawals, /0 prefix) were found and fixed under C16.",
    "C07": "Pure per-family NLRI encode/decode round trip over input values; nothing for a scheduler or fault injector to decide.",
    "C08": "Predicate on the output bytes of pure construct functions; simulated sessions only incidentally parse what the agent emits (every write is re-framed and OPEN/UPDATE/NOTIFICATION are structurally decoded by the reference peer), which is not a claim over C08's input space.",
    "C09": "Differential test of a pure decoder against an independent encoder over encoding variants: input generation, not simulation.",
    "C11": "Per-input termination/no-raise of stateless decoders; the wire-reachable part is exercised under C10's step budget (it found the SR-capabilities/SRLB endless loop), the for-all-inputs claim per decoder is not a simulation target.",
    "C14": "OPEN/NOTIFICATION/KEEPALIVE/ROUTE-REFRESH codec round trip: pure functions of their input.",
    "C15": "Algebraic law (compositionality, order independence) of pure list decoders.",
    "C17": "Once the (C16-checked) state gate is passed, text -> bytes -> text through json_to_bin is a pure string function.",
}

TECH = "deterministic simulation with fault injection: "

CHECKS = [
    ("C01", "exploration", "5 C01",
     "seeded search over event orders, same-instant tie orders and swarm configurations; after every op the agent (reported state, bytes written, close/connect decisions, on_established) is compared in lock-step with an executable RFC 4271 section 8 profile model (refinement, explicit tolerated alternatives); evidence counts (model state, event) cells and distinct abstract traces",
     "trusted: stand-in Twisted contract (DESIGN appendix B), reference peer codec, the profile model; sampling, not enumeration; verdict scoped to the single-connection regime (C12a)",
     TECH + "lock-step refinement against an executable RFC 4271 reference model"),
    ("C02", "exploration", "5 C02",
     "adversarial prefix (C01 alphabet) then a cooperative reference peer; bounded liveness in virtual time (Established within idle_hold + connect + slack, still up on the same connection 3 hold times later) and 'recovery OPEN equals first OPEN'",
     "liveness is judged only after faults stop; bounds are the property's own; the cooperative peer validates the agent's OPEN like a real router and runs its own hold timer; its behaviour is a deterministic continuation executed by the engine (not part of the recorded, minimisable op list); variants: a dead connection in OpenSent (bound + 240 s), late completion of a pending close, application-handler ENOSPC faults in the prefix",
     TECH + "bounded liveness after faults stop + history check"),
    ("C03", "exploration", "5 C03",
     "configured x proposed hold times from {0,3,4,9,30,90,180,65535}^2 and arrival schedules at gaps just below/at/above H with explicit same-instant orders; timestamp oracle over the recorded history (KEEPALIVE <= H/3 apart, no expiry before H of silence, NOTIFICATION(4) exactly at the deadline then close, H=0: no periodic KEEPALIVE and no expiry, 240 s in OpenSent)",
     "virtual time only; oracle independent of the C01 model",
     TECH + "virtual-time schedule search with timestamp oracle"),
    ("C04", "exploration", "5 C04",
     "one peer byte stream delivered to a family of fresh agents that differ only in segmentation (whole, byte-wise, 1-/2-cuts, header/boundary-biased, random, with delays); differential oracle across the family + reference RFC 4271 deframer and profile model + step budget per dataReceived; quick sweeps boundary length values and all 256 type octets, thorough all 65536 length values x 3 states",
     "reference deframer accepts both readings for an unknown type octet whose body has not fully arrived; frames with opaque bodies are judged differentially only",
     TECH + "differential delivery schedules + reference deframer + deterministic step budget"),
    ("C05", "exploration", "5 C05",
     "configurations over the 2-/4-octet AS boundary x 2-5 consecutive sessions with differing peer OPENs (incl. rejected ones); agent OPEN parsed by the reference peer vs configuration and vs the first session's OPEN; accept/reject rule; keepalive interval = min(configured, proposed)/3; AS_PATH delivered to the handler vs what the peer encoded (4-octet iff both advertised capability 65)",
     "capability *order* in the OPEN is not constrained; graceful-restart/multisession capabilities are allowed when configured but not required",
     TECH + "multi-session histories with reference-peer oracle"),
    ("C10", "exploration", "5 C10",
     "bursts of mutated / structure-aware hostile frames (seeded from every bytes literal in yabgp/tests/**.py and from the reference encoder; nested TLV generators for BGP-LS, Prefix-SID, tunnel-encap, MP_REACH families) in OpenSent/OpenConfirm/Established, then known-good messages compared with a control run; no escape, step budget, <=1 report per frame, raw bytes in on_update_error, UPDATE never ends an Established session, clean end state with reconnect",
     "the harness does not decide which bodies are 'malformed': every well-framed UPDATE-typed frame of >= 23 octets must leave the session up",
     TECH + "hostile-peer fault injection with control-run comparison and deterministic step budget"),
    ("C12", "exploration", "5 C12",
     "C01 alphabet with no restriction on when connects are answered (or never), when the operator stops/starts, which (also stale) connection the peer talks on and when closes complete; connect_retry below/at/above the 30 s TCP timeout; invariants after every op: every earlier connector ended or aborted at each connectTCP, writes only to the newest established connection, <=1 live; after draining all timers no open unreferenced connection",
     "a connection on which the agent called loseConnection counts as ended",
     TECH + "invariant checking over unrestricted connect/timer/operator races"),
    ("C13", "exploration", "5 C13",
     "cycles of walk-to-state / manual-stop / 1-24 environment ops / manual-start; oracle: Cease+close from Established, every connection closed or aborted at stop, zero bytes and zero connectTCP while stopped, state IDLE, connect at once on start, automatic recovery afterwards, start while up changes nothing (outputs, state, timers)",
     "REST views run atomically at event boundaries",
     TECH + "operator/environment race search with silence oracle"),
    ("C16", "exploration", "5 C16",
     "every rule of the real Flask url_map under /v1/peer/ x 7 methods x {none, wrong user, wrong password, empty, right} credentials in session states reached by C01-style prefixes; 401 + unchanged effect snapshot; gate outside Established; successful sends: exactly one well-formed message on the current connection whose reference decoding equals the request (+ LOCAL_PREF 100 iff iBGP), bin_update bytes verbatim, MP payloads equal a direct codec call",
     "a send whose deferred write is overtaken by the connection's end may be absent (in flight at close), never altered or duplicated; JSON object key order is the client's (sorted)",
     TECH + "REST/operator fault injection with effect snapshots and wire-vs-request oracle"),
    ("C18", "exploration", "5 C18",
     "C01-style traces (half of them with hostile frames, one frame per chunk) with GET statistic at random quiescent points and at the end; counters compared with frames by type in the current connection's write log and delivered stream",
     "frames shorter than their type's minimum length are unconstrained, as in the property",
     TECH + "history check of REST counters against the simulated wire"),
    ("C19", "exploration", "5 C19",
     "rib=True sessions with announce/withdraw/re-announce histories over small IPv4, flowspec and VPNv4 pools, REST sends for the sent side, adj-rib queries, session drops and re-establishment; dictionary model stepped per UPDATE: Adj-RIB-In/Out equality, emptiness after drop, version counters move iff the family's table changed",
     "the same prefix in both fields of one UPDATE is not generated (DESIGN C19); 'vpnv4' cannot be configured in this environment (ext_nexthop option), VPNv4 UPDATEs are still decoded",
     TECH + "reference-model (dictionary) refinement over update histories with session drops"),
    ("C20", "fault_enumeration", "5 C20",
     "real DefaultHandler and start-up path on a simulated file system (user buffer / page cache / durable); histories of real protocol events with rotations, clean restarts and crashes armed at file-system call numbers (process kill; power loss keeping any prefix of the un-synced tail; optional loss of a never-synced file); per sweep history EVERY call boundary x kill and EVERY fsync x EVERY byte offset of the tail; audit after every restart and at the end (complete JSON lines, seq +1 across files/restarts, crash fragments stand alone, acknowledged records present, start-up never exits)",
     "crash model = kill / power loss with prefix-torn tails; also injected: wall-clock steps (-1 day .. +1 h, reactor time base untouched) and storage errors (one flush or fsync fails with ENOSPC/EIO, possibly after a partial write; one more missing record tolerated per injected error, only in runs that also crash)",
     TECH + "crash-point and torn-write enumeration inside seeded histories"),
]


def build():
    checks = []
    for pid, cat, ref, text, note, tech in CHECKS:
        checks.append({
            "property_id": pid,
            "quick_cmd": "./check.py %s --tier quick" % pid,
            "thorough_cmd": "./check.py %s --tier thorough" % pid,
            "evidence_file": "/verif/evidence/%s.json" % pid,
            "replay_cmd_template": "./check.py --replay {path}",
            "engine": "logsim" if pid == "C20" else "sessionsim",
            "level_claimed": {"category": cat, "text": text, "design_ref": "DESIGN.md section " + ref},
            "level_note": note,
            "technique": tech,
        })
    return {
        "version": 1,
        "setup_cmd": "/venv/bin/python -c \"import flask, flask_httpauth, oslo_config, netaddr, sys; assert sys.version_info[:2] >= (3, 12); sys.monitoring\"",
        "hooks": {
            "guard": "YABGP_VERIF",
            "enable": "no source hooks exist: the simulator is the stand-in twisted/radix/simplejson packages under /verif/sim/standins put first on sys.path, module attributes (time, open, os) are replaced at run time; yabgp is imported from /repo's working tree (VERIF_REPO overrides)",
            "baseline_off_cmd": "cd /repo && /venv/bin/python -m pytest -ra -q -p no:cacheprovider --timeout=900 --continue-on-collection-errors",
            "source_commits": [],
            "add_only": True,
        },
        "engines": [
            {"name": "sessionsim", "path": "/verif/sim", "serves_properties": [c[0] for c in CHECKS if c[0] != "C20"],
             "kind_free_text": "deterministic discrete-event simulation of the whole agent (real FSM/protocol/factory/timer/REST/config/start-up code) under a virtual-time stand-in reactor; one PRNG per run decides configuration, schedule and faults; explicit op lists as replay files; ddmin minimisation; fresh-interpreter replay verification"},
            {"name": "logsim", "path": "/verif/sim", "serves_properties": ["C20"],
             "kind_free_text": "same engine plus an in-memory file system with volatile/durable split and numbered crash points under the real DefaultHandler"},
        ],
        "checks": checks,
        "not_applicable": [{"property_id": k, "reason": NA[k]} for k in sorted(NA)],
        "notes": "Exit codes: 0 held / 1 VIOLATION (replay file, minimised, reproduced in a fresh interpreter) / 2 HARNESS-ERROR. "
                 "Genuine defects found on the pinned tree were repaired by 'fix:' commits in /repo and are listed as fixed in "
                 "/verif/known_findings.json (a fixed entry suppresses nothing). ./check.py selftest runs the determinism and "
                 "sensitivity self-tests.",
    }


if __name__ == "__main__":
    m = build()
    path = os.path.join(HERE, "MANIFEST.json")
    with open(path, "w") as fh:
        json.dump(m, fh, indent=1)
        fh.write("\n")
    try:
        import jsonschema
        jsonschema.validate(m, json.load(open("/root/.vp/MANIFEST.schema.json")))
        print("MANIFEST.json written and valid (%d checks, %d not applicable)" % (len(m["checks"]), len(m["not_applicable"])))
    except ImportError:
        print("MANIFEST.json written (jsonschema not available in this interpreter)")
