#!/venv/bin/python
"""Entry point of the yabgp deterministic-simulation checks.

  check.py <ID> --tier quick|thorough [--runs N] [--jobs J]
  check.py --replay <file>
  check.py selftest [...]

exit 0: property held on everything explored (KNOWN-FINDING lines allowed)
exit 1: VIOLATION property=<id> replay=<path>
exit 2: HARNESS-ERROR (never reported as 0 and never as a violation)
"""
import os
import sys

_HS = os.environ.get("VERIF_HASHSEED", "0")      # (selftest runs the batches under other hash seeds too)
if os.environ.get("PYTHONHASHSEED") != _HS:
    os.environ["PYTHONHASHSEED"] = _HS
    os.environ.setdefault("PYTHONDONTWRITEBYTECODE", "1")
    os.execv(sys.executable, [sys.executable] + sys.argv)

HERE = os.path.dirname(os.path.abspath(__file__))
sys.path.insert(0, HERE)


def main(argv):
    import argparse
    ap = argparse.ArgumentParser()
    ap.add_argument("prop", nargs="?")
    ap.add_argument("--tier", default=os.environ.get("VERIF_TIER", "quick"), choices=["quick", "thorough"])
    ap.add_argument("--runs", type=int, default=None)
    ap.add_argument("--jobs", type=int, default=int(os.environ.get("VERIF_JOBS", "16")))
    ap.add_argument("--replay", default=None)
    ap.add_argument("--quiet", action="store_true")
    ap.add_argument("--dump", action="store_true", help="with --replay: print the event log")
    ap.add_argument("--digest-only", action="store_true", help="run the batch, print its digest, judge nothing")
    args, rest = ap.parse_known_args(argv)
    seed = int(os.environ.get("VERIF_SEED", "1") or "1")
    try:
        from sim import engine
        if args.replay:
            if args.dump:
                import json
                from sim import profiles
                rep = json.load(open(args.replay))
                prof = profiles.get(rep["property"])
                print("config:", prof.config_diff(rep["config"]))

                def show(op, events):
                    if not any(e[2] == "op" for e in events):
                        print("   op", op if len(str(op)) < 200 else str(op)[:200] + "...")
                    for e in events:
                        print("  ", e)
                r = engine.execute(prof, rep["config"], rep["ops"], None, rep.get("tier", "quick"), observer=show)
                if r.violation:
                    print("VIOLATION", r.violation[0], "\n", r.violation[1])
                return 0
            rep, r = engine.replay_file(args.replay)
            if r.violation is None:
                print("REPLAY-CLEAN property=%s file=%s (recorded: %s)" % (rep["property"], args.replay, rep["signature"]))
                return 0
            same = r.violation[0] == rep["signature"] and (rep.get("digest") in (None, r.digest))
            if not args.quiet:
                print("signature: %s\nmessage  : %s" % (r.violation[0], r.violation[1]))
            if same:
                print("REPLAY-REPRODUCED digest=%s" % r.digest)
            else:
                print("REPLAY-DIFFERS got=%s digest=%s recorded=%s digest=%s"
                      % (r.violation[0], r.digest, rep["signature"], rep.get("digest")))
            print("VIOLATION property=%s replay=%s" % (rep["property"], args.replay))
            return 1
        if args.prop == "selftest":
            from sim import selftest
            return selftest.main(rest, seed, args.jobs)
        if not args.prop:
            ap.error("property id required")
        if args.digest_only:
            from sim import profiles
            n = args.runs or 200
            agg = engine.run_batch(args.prop, args.tier, seed, n, args.jobs)
            if agg["errors"]:
                print("HARNESS-ERROR %s" % agg["errors"][0][1])
                return 2
            print("DIGEST %s runs=%d" % (agg["digest"], agg["runs"]))
            return 0
        return engine.check(args.prop, args.tier, seed, args.jobs, args.runs, args.quiet)
    except SystemExit:
        raise
    except BaseException:
        import traceback
        print("HARNESS-ERROR %s" % traceback.format_exc())
        return 2


if __name__ == "__main__":
    sys.exit(main(sys.argv[1:]))
