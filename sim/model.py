"""Executable reference model: RFC 4271 section 8 as profiled for an active-only speaker
(DESIGN.md section 5).  Written from the RFC text (and RFC 6608 for FSM-error subcodes), not
from yabgp's code.

The model is stepped in lock-step with the implementation.  ``alternatives(event)`` returns
the list of *allowed* outcomes; each outcome is (pattern, next_model) where pattern is the
exact sequence of observable outputs the agent must produce for this event.  Where the RFC
is ambiguous or the given properties are silent there are several alternatives -- a set of
allowed behaviours, never a switch that turns checking off.

Observable output tokens
    ('connect', cid)                 reactor.connectTCP
    ('abort', cid)                   connector.stopConnecting()/disconnect() on a pending attempt
    ('tx', cid, 'OPEN'|'KEEPALIVE'|'UPDATE'|'ROUTE-REFRESH')
    ('tx', cid, ('NOTIF', code, sub))
    ('lose', cid)                    transport.loseConnection()
    ('estab',)                       handler.on_established
Patterns use the same tokens; a NOTIF pattern may carry a set of sub-codes or None (= any).
"""
import copy

EPS = 1e-6
LARGE_HOLD = 240.0


def NOTIF(code, subs=None):
    return ("NOTIF", code, subs)


ANY = None


class Model(object):
    def __init__(self, cfg):
        self.cfg_hold = cfg["hold_time"]
        self.idle_hold = float(cfg["idle_hold_time"])
        self.connect_retry = float(cfg["connect_retry_time"])
        self.remote_as = cfg["remote_as"]
        self.phase = "Idle"
        self.stopped = False
        self.conn = None            # current attempt / connection id
        self.nconn = 0              # connectTCP calls so far == next connection id
        self.closing = set()        # connections the agent has closed, completion pending
        self.H = None
        # timers
        self.deadline = float(cfg["call_later"])   # Idle: connect must happen by then (None = none)
        self.t_cr = None            # Connect: retry no later than this
        self.t_hold = []            # candidate exact expiry instants of the hold timer
        self.t_ka = None            # keepalive deadline
        self.await_close = False    # Idle after our own close: deadline starts when it completes
        self.active_ok = False      # reported state 'ACTIVE' tolerated (after OpenSent + peer close)

    def clone(self):
        return copy.copy(self)._fix()

    def _fix(self):
        self.closing = set(self.closing)
        self.t_hold = list(self.t_hold)
        return self

    # ------------------------------------------------------------------ helpers
    def reported(self):
        """Set of state strings the agent may report now."""
        if self.phase == "Idle":
            return ("IDLE", "ACTIVE") if self.active_ok else ("IDLE",)
        return {"Connect": ("CONNECT",), "OpenSent": ("OPENSENT",), "OpenConfirm": ("OPENCONFIRM",),
                "Established": ("ESTABLISHED",)}[self.phase]

    def _to_idle(self, now, closed_already, deadline_span=None):
        """Leave the session; automatic restart unless the operator stopped the peer."""
        self.phase = "Idle"
        self.active_ok = False
        self.t_hold = []
        self.t_ka = None
        self.t_cr = None
        self.H = None
        if self.conn is not None and not closed_already:
            self.closing.add(self.conn)
        self.conn = None
        span = self.idle_hold if deadline_span is None else deadline_span
        if self.stopped:
            self.deadline = None
            self.await_close = False
        elif closed_already:
            self.deadline = now + span
            self.await_close = False
        else:
            # reconnect no later than idle_hold_time after the close has completed
            self.deadline = None
            self.await_close = True
        return self

    def due_exact(self, now):
        return [t for t in self.t_hold if abs(t - now) <= EPS]

    def missed(self, t_new):
        """Timers whose expiry lies strictly before t_new and that never fired."""
        out = []
        if self.phase == "Idle" and not self.stopped and self.deadline is not None \
                and self.deadline < t_new - EPS:
            out.append(("reconnect-deadline", self.deadline))
        if self.phase == "Connect" and self.t_cr is not None and self.t_cr < t_new - EPS:
            out.append(("connect-retry", self.t_cr))
        if self.phase in ("OpenSent", "OpenConfirm", "Established"):
            if self.t_hold and max(self.t_hold) < t_new - EPS:
                out.append(("hold", max(self.t_hold)))
            if self.t_ka is not None and self.t_ka < t_new - EPS:
                out.append(("keepalive", self.t_ka))
        return out

    def time_passes(self, t_new):
        """Drop hold-expiry candidates that lie in the past (only possible while a later
        candidate exists; otherwise missed() has reported it)."""
        if len(self.t_hold) > 1:
            self.t_hold = [t for t in self.t_hold if t >= t_new - EPS]

    # ------------------------------------------------------------------ transitions
    def alternatives(self, ev, now):
        kind = ev[0]
        fn = getattr(self, "ev_" + kind)
        return fn(now, *ev[1:])

    # -- timers -----------------------------------------------------------
    def ev_fire(self, now):
        alts = [([], self.clone())]                       # a stale / irrelevant call: no effect
        p = self.phase
        if p == "Idle":
            if not self.stopped:
                m = self.clone()
                alts.append(([("connect", m.nconn)], m._start_connect(now)))
        elif p == "Connect" and (self.t_cr is None or abs(now - self.t_cr) <= EPS):
            # ConnectRetryTimer (at its own instant: a start event in Connect is ignored, nothing else
            # restarts the attempt): drop the attempt, start a new one, stay in Connect
            m = self.clone()
            old = m.conn
            new = m.nconn
            m._start_connect(now)
            alts.append(([("abort", old), ("connect", new)], m))
            alts.append(([("connect", new)], m.clone()))   # C12 judges the missing abort
        elif p == "OpenSent":
            if self.due_exact(now):
                m = self.clone()
                c = m.conn
                alts.append(([("tx", c, NOTIF(4, ANY)), ("lose", c)], m._to_idle(now, False)))
        elif p in ("OpenConfirm", "Established"):
            c = self.conn
            if self.H:
                m = self.clone()
                m.t_ka = now + m.H / 3.0
                alts.append(([("tx", c, "KEEPALIVE")], m))
                if self.due_exact(now):
                    m = self.clone()
                    alts.append(([("tx", c, NOTIF(4, ANY)), ("lose", c)], m._to_idle(now, False)))
        return alts

    def _start_connect(self, now):
        self.phase = "Connect"
        self.active_ok = False
        self.conn = self.nconn
        self.nconn += 1
        self.deadline = None
        self.await_close = False
        self.t_cr = now + self.connect_retry
        return self

    # -- TCP --------------------------------------------------------------
    def ev_conn_ok(self, now, cid):
        if self.phase == "Connect" and cid == self.conn:
            m = self.clone()
            m.phase = "OpenSent"
            m.t_cr = None
            m.t_hold = [now + LARGE_HOLD]
            return [([("tx", cid, "OPEN")], m)]
        # a connection nobody is waiting for: must not be used; closing it at once is fine
        m = self.clone()
        m.closing.add(cid)
        return [([], self.clone()), ([("lose", cid)], m)]

    def ev_conn_fail(self, now, cid):
        if self.phase == "Connect" and cid == self.conn:
            m = self.clone()
            m.conn = None
            return [([], m._to_idle(now, True))]
        return [([], self.clone())]

    def ev_peer_close(self, now, cid):
        if cid == self.conn and self.phase in ("OpenSent", "OpenConfirm", "Established"):
            m = self.clone()
            span = None
            if self.phase == "OpenSent":
                # RFC: -> Active with ConnectRetryTimer; this profile: Idle with idle-hold
                span = max(self.idle_hold, self.connect_retry)
            m.conn = None
            m._to_idle(now, True, span)
            m.active_ok = self.phase == "OpenSent"
            return [([], m)]
        m = self.clone()
        m.closing.discard(cid)
        return [([], m)]

    def ev_close_done(self, now, cid):
        m = self.clone()
        m.closing.discard(cid)
        if m.phase == "Idle" and not m.stopped and m.await_close and not m.closing:
            m.await_close = False
            m.deadline = now + m.idle_hold
        elif m.phase == "Idle" and not m.stopped and m.deadline is not None:
            # automatic restart is (re)scheduled relative to the completed close
            m.deadline = max(m.deadline, now + m.idle_hold)
        return [([], m)]

    # -- operator ---------------------------------------------------------
    def ev_stop(self, now):
        p = self.phase
        c = self.conn
        m = self.clone()
        m.stopped = True
        if p == "Idle":
            m.deadline = None
            m.await_close = False
            return [([], m)]
        if p == "Connect":
            m2 = m.clone()
            m.conn = None
            m._to_idle(now, True)
            m2.conn = None
            m2._to_idle(now, True)
            return [([("abort", c)], m), ([], m2)]       # C12/C13 judge the missing abort
        m._to_idle(now, False)
        if p == "Established":
            return [([("tx", c, NOTIF(6, ANY)), ("lose", c)], m)]
        return [([("lose", c)], m), ([("tx", c, NOTIF(6, ANY)), ("lose", c)], m.clone())]

    def ev_start(self, now):
        if self.phase == "Idle":
            m = self.clone()
            m.stopped = False
            new = m.nconn
            m._start_connect(now)
            return [([("connect", new)], m)]
        m = self.clone()
        m.stopped = False
        return [([], m)]

    def ev_noop(self, now):
        return [([], self.clone())]

    # -- messages ---------------------------------------------------------
    def _err(self, now, cid, code, subs):
        m = self.clone()
        return ([("tx", cid, NOTIF(code, subs)), ("lose", cid)], m._to_idle(now, False))

    def ev_msg(self, now, cid, kind, info=None):
        p = self.phase
        if cid != self.conn or p in ("Idle", "Connect"):
            # bytes on a connection that is not (or no longer) the session's: nothing may happen
            return [([], self.clone())]
        # framing violations: identical in every state with TCP up (RFC 4271 6.1)
        if kind == "bad_marker":
            return [self._err(now, cid, 1, {1})]
        if kind == "bad_len":
            return [self._err(now, cid, 1, {2})]
        if kind == "bad_type":
            return [self._err(now, cid, 1, {3})]
        fn = getattr(self, "msg_" + p)
        return fn(now, cid, kind, info or {})

    def _open_errors(self, info):
        errs = set()
        if info.get("version") != 4:
            errs.add(1)
        if info.get("true_as") != self.remote_as:
            errs.add(2)
        if info.get("hold") in (1, 2):
            errs.add(6)
        if info.get("malformed"):
            errs.add(0)
        return errs

    def msg_OpenSent(self, now, cid, kind, info):
        if kind == "open":
            errs = self._open_errors(info)
            if errs:
                if 0 in errs:
                    return [self._err(now, cid, 2, ANY), self._err(now, cid, 1, ANY)]
                return [self._err(now, cid, 2, errs)]
            m = self.clone()
            m.phase = "OpenConfirm"
            m.H = min(self.cfg_hold, info["hold"])
            if m.H > 0:
                m.t_ka = now + m.H / 3.0
                m.t_hold = [now + m.H]
            else:
                m.t_ka = None
                m.t_hold = []
            return [([("tx", cid, "KEEPALIVE")], m)]
        if kind in ("keepalive", "update"):
            return [self._err(now, cid, 5, {0, 1})]
        if kind == "notif":
            m = self.clone()
            return [([("lose", cid)], m._to_idle(now, False)), self._err(now, cid, 5, ANY)]
        if kind == "rr":
            return [([], self.clone()), self._err(now, cid, 5, ANY)]
        raise AssertionError(kind)

    def msg_OpenConfirm(self, now, cid, kind, info):
        if kind == "keepalive":
            m = self.clone()
            m.phase = "Established"
            if m.H:
                m.t_hold = [now + m.H]
            return [([("estab",)], m)]
        if kind == "open":
            errs = self._open_errors(info)
            if errs:
                if 0 in errs:
                    return [self._err(now, cid, 2, ANY), self._err(now, cid, 1, ANY),
                            self._err(now, cid, 5, ANY)]
                return [self._err(now, cid, 2, errs), self._err(now, cid, 5, ANY)]
            # no collision detection in this profile: ignore (NOTHING changes) or refuse
            return [([], self.clone()), self._err(now, cid, 6, {7}), self._err(now, cid, 5, ANY)]
        if kind == "update":
            return [self._err(now, cid, 5, {0, 2})]
        if kind == "notif":
            m = self.clone()
            return [([("lose", cid)], m._to_idle(now, False))]
        if kind == "rr":
            return [([], self.clone()), self._err(now, cid, 5, ANY)]
        raise AssertionError(kind)

    def msg_Established(self, now, cid, kind, info):
        if kind in ("keepalive", "update"):
            m = self.clone()
            if m.H:
                m.t_hold = [now + m.H]
            return [([], m)]
        if kind == "open":
            errs = self._open_errors(info)
            alts = [self._err(now, cid, 5, {0, 3}), self._err(now, cid, 6, {7})]
            if errs:
                alts.append(self._err(now, cid, 2, errs if 0 not in errs else ANY))
                alts.append(self._err(now, cid, 5, ANY))
                if 0 in errs:
                    alts.append(self._err(now, cid, 1, ANY))
            return alts
        if kind == "notif":
            m = self.clone()
            return [([("lose", cid)], m._to_idle(now, False))]
        if kind == "rr":
            m = self.clone()
            if m.H:
                # whether ROUTE-REFRESH restarts the hold timer is not fixed by the properties
                m.t_hold = sorted(set(m.t_hold) | {now + m.H})
            return [([], m)]
        raise AssertionError(kind)


# ---------------------------------------------------------------------- matching

def tok_match(pat, tok):
    if pat[0] != tok[0] or len(pat) != len(tok):
        return False
    if pat[0] == "tx":
        if pat[1] != tok[1]:
            return False
        a, b = pat[2], tok[2]
        if isinstance(a, tuple):
            if not isinstance(b, tuple) or a[1] != b[1]:
                return False
            return a[2] is None or b[2] in a[2]
        return a == b
    return tuple(pat) == tuple(tok)


def match_events(model, events, observed, now):
    """Find a choice of alternatives for the event sequence whose concatenated patterns
    equal `observed`.  Returns the resulting model or None."""
    def rec(m, i, pos):
        if i == len(events):
            return m if pos == len(observed) else None
        for pat, m2 in m.alternatives(events[i], now):
            n = len(pat)
            if pos + n <= len(observed) and all(tok_match(pat[j], observed[pos + j]) for j in range(n)):
                r = rec(m2, i + 1, pos + n)
                if r is not None:
                    return r
        return None
    return rec(model, 0, 0)


def match_events_path(model, events, observed, now):
    """Like match_events, but returns (model, [chosen pattern per event]) or None."""
    def rec(m, i, pos, path):
        if i == len(events):
            return (m, path) if pos == len(observed) else None
        for pat, m2 in m.alternatives(events[i], now):
            n = len(pat)
            if pos + n <= len(observed) and all(tok_match(pat[j], observed[pos + j]) for j in range(n)):
                r = rec(m2, i + 1, pos + n, path + [pat])
                if r is not None:
                    return r
        return None
    return rec(model, 0, 0, [])


def describe_expected(model, events, now):
    out = []
    m = model
    for ev in events:
        alts = m.alternatives(ev, now)
        out.append({"event": list(ev) if not isinstance(ev, str) else ev,
                    "allowed": [[_fmt(t) for t in pat] for pat, _ in alts]})
        m = alts[0][1]
    return out


def _fmt(t):
    if t[0] == "tx" and isinstance(t[2], tuple):
        subs = t[2][2]
        return "tx%d:NOTIF(%d,%s)" % (t[1], t[2][1], "*" if subs is None else (
            "|".join(str(s) for s in sorted(subs)) if isinstance(subs, (set, frozenset)) else subs))
    if t[0] == "tx":
        return "tx%d:%s" % (t[1], t[2])
    return "%s%s" % (t[0], "" if len(t) == 1 else t[1])
