"""Reference BGP speaker codec, written from RFC 4271 / 5492 / 6793 / 2918 / 1997.
Shares no code with yabgp.message.  Used (a) to produce what the simulated remote router
sends and (b) to parse everything the agent writes.
"""
import struct
import socket

MARKER = b"\xff" * 16
OPEN, UPDATE, NOTIFICATION, KEEPALIVE, ROUTE_REFRESH, CISCO_ROUTE_REFRESH = 1, 2, 3, 4, 5, 128
KNOWN_TYPES = (OPEN, UPDATE, NOTIFICATION, KEEPALIVE, ROUTE_REFRESH, CISCO_ROUTE_REFRESH)
TYPE_NAMES = {1: "OPEN", 2: "UPDATE", 3: "NOTIFICATION", 4: "KEEPALIVE", 5: "ROUTE-REFRESH",
              128: "ROUTE-REFRESH"}
# RFC 4271 4.x minimum total lengths per type (route refresh: RFC 2918 -> 23)
MIN_LEN = {OPEN: 29, UPDATE: 23, NOTIFICATION: 21, KEEPALIVE: 19, ROUTE_REFRESH: 23,
           CISCO_ROUTE_REFRESH: 23}
AS_TRANS = 23456


def frame(msg_type, body=b"", length=None, marker=MARKER):
    if length is None:
        length = 19 + len(body)
    return marker + struct.pack("!HB", length & 0xFFFF, msg_type & 0xFF) + body


# --------------------------------------------------------------------------- deframer

class Frame(object):
    __slots__ = ("type", "length", "body", "raw", "error", "offset")

    def __init__(self, type_, length, body, raw, error=None, offset=0):
        self.type = type_
        self.length = length
        self.body = body
        self.raw = raw
        self.error = error          # None | ('marker'|'length'|'type', subcode)
        self.offset = offset

    def __repr__(self):
        if self.error:
            return "<Frame ERR %s len=%s type=%s>" % (self.error[0], self.length, self.type)
        return "<Frame %s len=%d>" % (TYPE_NAMES.get(self.type, self.type), self.length)


def deframe(stream, early_type=True, strict=False):
    """RFC 4271 4.1 / 6.1 deframer.  Returns (frames, rest).  strict=True adds the two type-specific
    length rules of 6.1 that yabgp's session layer is expected to honour (KEEPALIVE != 19,
    OPEN < 29).  Stops at the first header
    violation, which is returned as a Frame with .error set (it is the last frame).
    The header is judged as soon as its 19 octets are there (marker, then length, then type),
    like a router that validates the header before waiting for the body."""
    frames = []
    off = 0
    n = len(stream)
    while n - off >= 19:
        hdr = stream[off:off + 19]
        length, mtype = struct.unpack("!HB", hdr[16:19])
        if hdr[:16] != MARKER:
            frames.append(Frame(mtype, length, b"", stream[off:], ("marker", 1), off))
            return frames, b""
        if length < 19 or length > 4096:
            frames.append(Frame(mtype, length, b"", stream[off:], ("length", 2), off))
            return frames, b""
        if mtype not in KNOWN_TYPES and (early_type or n - off >= length):
            # bad type is detectable from the header alone (early_type) -- a receiver may equally
            # well wait for the whole frame before it looks at the type
            frames.append(Frame(mtype, length, b"", stream[off:], ("type", 3), off))
            return frames, b""
        if strict and ((mtype == KEEPALIVE and length != 19) or (mtype == OPEN and length < 29)) \
                and (early_type or n - off >= length):
            # RFC 4271 6.1: a KEEPALIVE whose length is not 19 / an OPEN shorter than the minimum OPEN
            # is a Bad Message Length too (detectable from the header alone; with early_type=False the
            # receiver is assumed to look at it only once the whole frame is there)
            frames.append(Frame(mtype, length, b"", stream[off:], ("length", 2), off))
            return frames, b""
        if n - off < length:
            break
        frames.append(Frame(mtype, length, stream[off + 19:off + length], stream[off:off + length],
                            None, off))
        off += length
    return frames, stream[off:]


def split_frames_loose(stream):
    """Split an agent-written byte string into frames, assuming it is well framed; raises
    ValueError otherwise (the agent must only ever write whole, valid frames)."""
    frames, rest = deframe(stream)
    for f in frames:
        if f.error:
            raise ValueError("agent wrote a mis-framed message: %r at %d" % (f.error, f.offset))
    if rest:
        raise ValueError("agent wrote a truncated message (%d trailing bytes)" % len(rest))
    return frames


# --------------------------------------------------------------------------- OPEN

def cap_tlv(code, value=b""):
    return struct.pack("!BB", code, len(value)) + value


def encode_caps(caps, one_param_each=True):
    """caps: list of (code, value-bytes). Returns optional parameters bytes."""
    out = b""
    if one_param_each:
        for code, val in caps:
            c = cap_tlv(code, val)
            out += struct.pack("!BB", 2, len(c)) + c
    else:
        allc = b"".join(cap_tlv(c, v) for c, v in caps)
        if allc:
            out = struct.pack("!BB", 2, len(allc)) + allc
    return out


def cap_mp(afi, safi):
    return (1, struct.pack("!HBB", afi, 0, safi))


def cap_rr():
    return (2, b"")


def cap_rr_cisco():
    return (128, b"")


def cap_as4(asn):
    return (65, struct.pack("!I", asn))


def cap_gr(flags_time=0):
    return (64, struct.pack("!H", flags_time))


def cap_addpath(afi, safi, sr):
    return (69, struct.pack("!HBB", afi, safi, sr))


def cap_err():
    return (70, b"")


def encode_open(asn, hold, bgp_id, caps=None, version=4, one_param_each=True, my_as_field=None):
    """asn: true AS (may exceed 65535; AS_TRANS is put in the 2-octet field then).
    caps: list of (code, bytes). bgp_id: dotted quad or int."""
    if isinstance(bgp_id, str):
        bid = socket.inet_aton(bgp_id)
    else:
        bid = struct.pack("!I", bgp_id)
    if my_as_field is None:
        my_as_field = asn if asn <= 65535 else AS_TRANS
    opt = encode_caps(caps or [], one_param_each)
    body = struct.pack("!BHH", version, my_as_field, hold) + bid + struct.pack("!B", len(opt)) + opt
    return frame(OPEN, body)


class OpenMsg(object):
    def __init__(self):
        self.version = None
        self.my_as = None
        self.hold = None
        self.bgp_id = None
        self.caps = []       # list of (code, bytes) in wire order
        self.params = []     # list of (ptype, bytes)
        self.true_as = None

    def cap_codes(self):
        return sorted(c for c, _ in self.caps)

    def cap_multiset(self):
        return sorted((c, v.hex()) for c, v in self.caps)

    def summary(self):
        return {"version": self.version, "my_as": self.my_as, "true_as": self.true_as,
                "hold": self.hold, "bgp_id": self.bgp_id, "caps": self.cap_multiset()}


def decode_open(body):
    """Strict structural parse of an OPEN body; raises ValueError when lengths do not add up."""
    if len(body) < 10:
        raise ValueError("OPEN body shorter than 10 octets")
    m = OpenMsg()
    m.version, m.my_as, m.hold = struct.unpack("!BHH", body[:5])
    m.bgp_id = socket.inet_ntoa(body[5:9])
    optlen = body[9]
    opt = body[10:]
    if optlen != len(opt):
        raise ValueError("OPEN optional parameter length %d != %d" % (optlen, len(opt)))
    i = 0
    while i < len(opt):
        if i + 2 > len(opt):
            raise ValueError("truncated optional parameter header")
        ptype, plen = opt[i], opt[i + 1]
        pval = opt[i + 2:i + 2 + plen]
        if len(pval) != plen:
            raise ValueError("truncated optional parameter")
        m.params.append((ptype, pval))
        if ptype == 2:
            j = 0
            while j < len(pval):
                if j + 2 > len(pval):
                    raise ValueError("truncated capability header")
                code, clen = pval[j], pval[j + 1]
                cval = pval[j + 2:j + 2 + clen]
                if len(cval) != clen:
                    raise ValueError("truncated capability")
                m.caps.append((code, cval))
                j += 2 + clen
        i += 2 + plen
    m.true_as = m.my_as
    for code, val in m.caps:
        if code == 65 and len(val) == 4:
            m.true_as = struct.unpack("!I", val)[0]
    return m


# --------------------------------------------------------------------------- others

def encode_keepalive():
    return frame(KEEPALIVE)


def encode_notification(code, sub, data=b""):
    return frame(NOTIFICATION, struct.pack("!BB", code, sub) + data)


def decode_notification(body):
    if len(body) < 2:
        raise ValueError("NOTIFICATION body shorter than 2 octets")
    return body[0], body[1], body[2:]


def encode_route_refresh(afi, safi, res=0, cisco=False):
    return frame(CISCO_ROUTE_REFRESH if cisco else ROUTE_REFRESH, struct.pack("!HBB", afi, res, safi))


def decode_route_refresh(body):
    if len(body) != 4:
        raise ValueError("ROUTE-REFRESH body is not 4 octets")
    afi, res, safi = struct.unpack("!HBB", body)
    return afi, res, safi


# --------------------------------------------------------------------------- UPDATE (RFC 4271 subset)

def encode_prefix(pfx):
    """'a.b.c.d/len' -> wire."""
    ip, plen = pfx.split("/")
    plen = int(plen)
    nbytes = (plen + 7) // 8
    return bytes([plen]) + socket.inet_aton(ip)[:nbytes]


def encode_prefix_dirty(pfx, fill=0xFF):
    """Same prefix, but the trailing (padding) bits of the last octet are set: RFC 4271 4.3 says
    their value is irrelevant."""
    raw = bytearray(encode_prefix(pfx))
    plen = raw[0]
    if plen % 8 and len(raw) > 1:
        raw[-1] |= (0xFF >> (plen % 8)) & fill
    return bytes(raw)


def decode_prefixes(data):
    out = []
    i = 0
    while i < len(data):
        plen = data[i]
        if plen > 32:
            raise ValueError("prefix length %d > 32" % plen)
        nbytes = (plen + 7) // 8
        raw = data[i + 1:i + 1 + nbytes]
        if len(raw) != nbytes:
            raise ValueError("truncated prefix")
        addr = bytearray(raw + b"\x00" * (4 - nbytes))
        # mask trailing bits
        v = struct.unpack("!I", bytes(addr))[0]
        if plen < 32:
            v &= (0xFFFFFFFF << (32 - plen)) & 0xFFFFFFFF
        out.append("%s/%d" % (socket.inet_ntoa(struct.pack("!I", v)), plen))
        i += 1 + nbytes
    return out


def attr_tlv(flags, code, value, force_ext=False):
    if len(value) > 255 or force_ext:
        return struct.pack("!BBH", flags | 0x10, code, len(value)) + value
    return struct.pack("!BBB", flags & ~0x10 & 0xFF, code, len(value)) + value


def encode_as_path(segments, as4):
    """segments: list of (segtype, [asn...])."""
    out = b""
    fmt = "!I" if as4 else "!H"
    for st, asns in segments:
        out += struct.pack("!BB", st, len(asns)) + b"".join(struct.pack(fmt, a) for a in asns)
    return out


def encode_attrs(attrs, as4):
    """attrs: dict with keys among origin, as_path, next_hop, med, local_pref, atomic,
    aggregator (asn, ip), communities [int], in canonical type order."""
    out = b""
    if "origin" in attrs:
        out += attr_tlv(0x40, 1, bytes([attrs["origin"]]))
    if "as_path" in attrs:
        out += attr_tlv(0x40, 2, encode_as_path(attrs["as_path"], as4))
    if "next_hop" in attrs:
        out += attr_tlv(0x40, 3, socket.inet_aton(attrs["next_hop"]))
    if "med" in attrs:
        out += attr_tlv(0x80, 4, struct.pack("!I", attrs["med"]))
    if "local_pref" in attrs:
        out += attr_tlv(0x40, 5, struct.pack("!I", attrs["local_pref"]))
    if attrs.get("atomic"):
        out += attr_tlv(0x40, 6, b"")
    if "aggregator" in attrs:
        asn, ip = attrs["aggregator"]
        out += attr_tlv(0xC0, 7, struct.pack("!I" if as4 else "!H", asn) + socket.inet_aton(ip))
    if "communities" in attrs:
        out += attr_tlv(0xC0, 8, b"".join(struct.pack("!I", c) for c in attrs["communities"]))
    for code, flags, raw in attrs.get("raw", []):
        out += attr_tlv(flags, code, raw)
    return out


def encode_update(withdrawn=(), attrs=None, nlri=(), as4=False, raw_attrs=None, dirty=None):
    """dirty: optional fill value -> prefixes are encoded with non-zero padding bits."""
    enc = encode_prefix if dirty is None else (lambda p: encode_prefix_dirty(p, dirty))
    w = b"".join(enc(p) for p in withdrawn)
    a = raw_attrs if raw_attrs is not None else encode_attrs(attrs or {}, as4)
    n = b"".join(enc(p) for p in nlri)
    body = struct.pack("!H", len(w)) + w + struct.pack("!H", len(a)) + a + n
    return frame(UPDATE, body)


def decode_attr_list(data):
    """-> list of (flags, code, value-bytes); strict on lengths."""
    out = []
    i = 0
    while i < len(data):
        if i + 3 > len(data):
            raise ValueError("truncated attribute header")
        flags, code = data[i], data[i + 1]
        if flags & 0x10:
            if i + 4 > len(data):
                raise ValueError("truncated extended attribute header")
            alen = struct.unpack("!H", data[i + 2:i + 4])[0]
            hdr = 4
        else:
            alen = data[i + 2]
            hdr = 3
        val = data[i + hdr:i + hdr + alen]
        if len(val) != alen:
            raise ValueError("truncated attribute value (code %d)" % code)
        out.append((flags, code, val))
        i += hdr + alen
    return out


def decode_as_path(val, as4):
    segs = []
    i = 0
    w = 4 if as4 else 2
    while i < len(val):
        if i + 2 > len(val):
            raise ValueError("truncated AS_PATH segment header")
        st, cnt = val[i], val[i + 1]
        raw = val[i + 2:i + 2 + cnt * w]
        if len(raw) != cnt * w:
            raise ValueError("truncated AS_PATH segment")
        asns = [int.from_bytes(raw[k:k + w], "big") for k in range(0, len(raw), w)]
        segs.append((st, asns))
        i += 2 + cnt * w
    return segs


def decode_update(body, as4=False):
    """Strict structural parse. -> dict(withdrawn, attrs(dict subset), attr_list, nlri)."""
    if len(body) < 4:
        raise ValueError("UPDATE body shorter than 4 octets")
    wl = struct.unpack("!H", body[:2])[0]
    if 2 + wl + 2 > len(body):
        raise ValueError("withdrawn routes length exceeds message")
    w = body[2:2 + wl]
    al = struct.unpack("!H", body[2 + wl:4 + wl])[0]
    if 4 + wl + al > len(body):
        raise ValueError("path attribute length exceeds message")
    a = body[4 + wl:4 + wl + al]
    n = body[4 + wl + al:]
    alist = decode_attr_list(a)
    attrs = {}
    for flags, code, val in alist:
        if code == 1:
            attrs["origin"] = val[0] if len(val) == 1 else ("bad", val.hex())
        elif code == 2:
            attrs["as_path"] = decode_as_path(val, as4)
        elif code == 3:
            attrs["next_hop"] = socket.inet_ntoa(val) if len(val) == 4 else ("bad", val.hex())
        elif code == 4:
            attrs["med"] = struct.unpack("!I", val)[0] if len(val) == 4 else ("bad", val.hex())
        elif code == 5:
            attrs["local_pref"] = struct.unpack("!I", val)[0] if len(val) == 4 else ("bad", val.hex())
        elif code == 6:
            attrs["atomic"] = True
        elif code == 7:
            w_ = 4 if as4 else 2
            if len(val) == w_ + 4:
                attrs["aggregator"] = (int.from_bytes(val[:w_], "big"), socket.inet_ntoa(val[w_:]))
            else:
                attrs["aggregator"] = ("bad", val.hex())
        elif code == 8:
            if len(val) % 4 == 0:
                attrs["communities"] = [struct.unpack("!I", val[k:k + 4])[0] for k in range(0, len(val), 4)]
            else:
                attrs["communities"] = ("bad", val.hex())
        else:
            attrs.setdefault("other", []).append((code, flags, val.hex()))
    return {"withdrawn": decode_prefixes(w), "attrs": attrs, "attr_list": alist,
            "nlri": decode_prefixes(n)}


# --------------------------------------------------------------------------- acceptance rule (a real router)

def open_acceptable(m, expect_as, ):
    """What a conformant remote router does with the agent's OPEN: None if acceptable, else the
    (code, subcode) it would answer."""
    if m.version != 4:
        return (2, 1)
    if m.true_as != expect_as:
        return (2, 2)
    if m.hold in (1, 2):
        return (2, 6)
    return None


def describe(raw):
    """Short human description of one well-formed frame (for samples / messages)."""
    frames, rest = deframe(raw)
    out = []
    for f in frames:
        if f.error:
            out.append("ERR-%s(len=%s,type=%s)" % (f.error[0], f.length, f.type))
        elif f.type == NOTIFICATION and len(f.body) >= 2:
            out.append("NOTIF(%d,%d)" % (f.body[0], f.body[1]))
        else:
            out.append(TYPE_NAMES.get(f.type, str(f.type)))
    if rest:
        out.append("+%dB" % len(rest))
    return out


# --------------------------------------------------------------------------- multiprotocol helpers (RFC 4760 / 4364 / 5575)

def flowspec_nlri(dst=None, src=None, proto=None, extra=b""):
    """extra: already encoded components of higher types (in ascending type order), e.g. packet length
    (type 10) = 100: b'\\x0a\\x81\\x64'."""
    comp = b""
    if dst is not None:
        comp += b"\x01" + encode_prefix(dst)
    if src is not None:
        comp += b"\x02" + encode_prefix(src)
    if proto is not None:
        comp += b"\x03" + bytes([0x81, proto])
    comp += extra
    assert len(comp) < 240
    return bytes([len(comp)]) + comp


def vpnv4_nlri(label, rd_asn, rd_num, pfx, withdraw=False):
    ip, plen = pfx.split("/")
    plen = int(plen)
    lab = (0x800000 if withdraw else ((label << 4) | 1)).to_bytes(3, "big")
    rd = struct.pack("!HHI", 0, rd_asn, rd_num)
    nbytes = (plen + 7) // 8
    return bytes([24 + 64 + plen]) + lab + rd + socket.inet_aton(ip)[:nbytes]


def mp_reach(afi, safi, nexthop, nlri):
    return attr_tlv(0x80, 14, struct.pack("!HBB", afi, safi, len(nexthop)) + nexthop + b"\x00" + nlri)


def mp_unreach(afi, safi, nlri):
    return attr_tlv(0x80, 15, struct.pack("!HB", afi, safi) + nlri)


def ext_communities(items):
    """items: list of 8-byte values"""
    return attr_tlv(0xC0, 16, b"".join(items))
