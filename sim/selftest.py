"""Self-tests of the machinery (./check.py selftest [--determinism N] [--standins] [--mutants] [--props C01,C03]).

determinism : every property's batch of N runs is executed (a) with 16 workers, (b) with 1 worker in a
              fresh interpreter under a different PYTHONHASHSEED; the batch digests (SHA-256 over every
              run's canonical event log) must be equal.
standins    : contract tests of the stand-in reactor / connector / transport (DESIGN appendix B).
mutants     : small, test-suite-passing mutations of yabgp applied to a scratch copy; the matching quick
              check must report a VIOLATION, and the unmutated copy must not.
"""
import json
import os
import shutil
import subprocess
import sys
import tempfile

from sim import bootstrap

VERIF = bootstrap.VERIF
CHECK = os.path.join(VERIF, "check.py")


def run_digest(prop, n, jobs, hashseed, repo=None):
    env = dict(os.environ)
    env["VERIF_HASHSEED"] = str(hashseed)
    env["PYTHONHASHSEED"] = str(hashseed)
    if repo:
        env["VERIF_REPO"] = repo
    p = subprocess.run([sys.executable, CHECK, prop, "--digest-only", "--runs", str(n), "--jobs", str(jobs)],
                       env=env, stdout=subprocess.PIPE, stderr=subprocess.STDOUT, timeout=3600)
    out = p.stdout.decode("latin1")
    for line in out.splitlines():
        if line.startswith("DIGEST "):
            return line.split()[1], out
    return None, out


def replay_equivalence(props, n):
    from sim import engine
    bad = 0
    for prop in props:
        b = engine.replay_equivalence(prop, 1, n)
        print("generation-vs-replay %s runs=%d  %s" % (prop, n, "OK" if not b else "MISMATCH in %d runs, e.g. %s" % (len(b), b[:2])))
        bad += 1 if b else 0
    return bad


def determinism(props, n):
    bad = 0
    for prop in props:
        a, oa = run_digest(prop, n, 16, 0)
        b, ob = run_digest(prop, n, 1, 12345)
        c, oc = run_digest(prop, n, 5, 7)
        ok = a is not None and a == b == c
        print("determinism %s runs=%d  jobs16/hash0=%s  jobs1/hash12345=%s  jobs5/hash7=%s  %s"
              % (prop, n, (a or "?")[:12], (b or "?")[:12], (c or "?")[:12], "OK" if ok else "MISMATCH"))
        if not ok:
            bad += 1
            print(oa[-800:], ob[-800:])
    return bad


# --------------------------------------------------------------------------- stand-in contract tests

def standins():
    from sim import simreactor
    from twisted.internet import error, protocol

    class W(object):
        def __init__(self):
            self.notes = []

        def note(self, *a):
            self.notes.append(a)

    fails = []

    def check(name, cond):
        if not cond:
            fails.append(name)
        print("  %-62s %s" % (name, "ok" if cond else "FAIL"))

    w = W()
    r = simreactor.SimReactor(w)
    simreactor.install(r)
    fired = []
    a = r.callLater(5, fired.append, "a")
    b = r.callLater(5, fired.append, "b")
    c = r.callLater(1, fired.append, "c")
    check("B1 calls due at the earliest instant, insertion order", [x.args[0] for x in r.due()] == ["c"])
    r.now = 1.0
    r.run_call(r.due()[0])
    check("B1 callLater runs the function", fired == ["c"])
    check("B2 active() false after the call ran", not c.active())
    try:
        c.cancel()
        check("B2 cancel after call raises AlreadyCalled", False)
    except error.AlreadyCalled:
        check("B2 cancel after call raises AlreadyCalled", True)
    try:
        c.reset(1)
        check("B2 reset after call raises AlreadyCalled", False)
    except error.AlreadyCalled:
        check("B2 reset after call raises AlreadyCalled", True)
    a.cancel()
    try:
        a.cancel()
        check("B2 double cancel raises AlreadyCancelled", False)
    except error.AlreadyCancelled:
        check("B2 double cancel raises AlreadyCancelled", True)
    b.reset(10)
    check("B2 reset re-times to now + s", abs(b.getTime() - 11.0) < 1e-9 and b.active())
    try:
        r.callLater(-1, fired.append, "x")
        check("B1 negative delay rejected", False)
    except AssertionError:
        check("B1 negative delay rejected", True)
    n = len(fired)
    r.callFromThread(fired.append, "t")
    check("B3 callFromThread is never synchronous", len(fired) == n and any(x.kind == "thread" for x in r.due()))

    class P(protocol.Protocol):
        def __init__(self):
            self.ev = []

        def connectionMade(self):
            self.ev.append("made")

        def dataReceived(self, d):
            self.ev.append(("data", d))

        def connectionLost(self, reason):
            self.ev.append(("lost", type(reason.value).__name__, self.transport.connected))

    class F(protocol.ClientFactory):
        protocol = P

        def __init__(self):
            self.ev = []

        def startedConnecting(self, c):
            self.ev.append("started")

        def buildProtocol(self, addr):
            self.ev.append(("build", addr.port))
            p = protocol.ClientFactory.buildProtocol(self, addr)
            self.p = p
            return p

        def clientConnectionFailed(self, c, reason):
            self.ev.append(("failed", type(reason.value).__name__, c.state))

        def clientConnectionLost(self, c, reason):
            self.ev.append(("clost", type(reason.value).__name__, c.state))

    f = F()
    conn = r.connectTCP("10.0.0.2", 179, f, timeout=30, bindAddress=("10.0.0.1", 0))
    check("B4 connector starts in 'connecting', startedConnecting called", conn.state == "connecting" and f.ev == ["started"])
    check("B4 timeout DelayedCall armed", conn.timeoutID is not None and abs(conn.timeoutID.getTime() - (r.now + 30)) < 1e-9)
    conn.sim_established()
    check("B4 success: timeout cancelled, buildProtocol(peer addr 179), connectionMade",
          conn.timeoutID is None and ("build", 179) in f.ev and f.p.ev == ["made"] and f.p.factory is f)
    t = conn.transport
    t.write(b"abc")
    check("B6 write while connected is sent", ("write", conn.cid, b"abc") in w.notes)
    t.loseConnection()
    check("B7 loseConnection: still connected until the close completes", t.connected == 1 and t.disconnecting == 1)
    t.write(b"def")
    check("B6 write after loseConnection, before close, is still sent", ("write", conn.cid, b"def") in w.notes)
    t.loseConnection()
    check("B7 loseConnection idempotent", [x for x in w.notes if x[0] == "lose"] == [("lose", conn.cid)])
    conn.sim_connection_lost(True, "agent")
    check("B7/B8 connected=0 before connectionLost; protocol then factory", f.p.ev[-1] == ("lost", "ConnectionDone", 0)
          and f.ev[-1] == ("clost", "ConnectionDone", "disconnected"))
    t.write(b"ghi")
    check("B6 write on a closed transport is dropped", ("write_dropped", conn.cid, b"ghi") in w.notes)
    f2 = F()
    c2 = r.connectTCP("10.0.0.2", 179, f2, timeout=30)
    c2.sim_refuse()
    check("B4 refused -> clientConnectionFailed(ConnectionRefusedError)", f2.ev[-1] == ("failed", "ConnectionRefusedError", "disconnected"))
    f3 = F()
    c3 = r.connectTCP("10.0.0.2", 179, f3, timeout=30)
    r.now = c3.timeoutID.getTime()
    r.run_call(c3.timeoutID)
    check("B4 timeout -> clientConnectionFailed(TimeoutError)", f3.ev[-1] == ("failed", "TimeoutError", "disconnected"))
    f4 = F()
    c4 = r.connectTCP("10.0.0.2", 179, f4, timeout=30)
    c4.stopConnecting()
    check("B4 stopConnecting -> clientConnectionFailed(UserError), timeout cancelled",
          f4.ev[-1] == ("failed", "UserError", "disconnected") and c4.timeoutID is None)
    try:
        c4.stopConnecting()
        check("B4 stopConnecting when not connecting raises", False)
    except error.NotConnectingError:
        check("B4 stopConnecting when not connecting raises", True)
    return len(fails)


# --------------------------------------------------------------------------- reference peer / model sanity

def refpeer_tests():
    from sim import refpeer as rp
    from sim import model as M
    fails = []

    def check(name, cond):
        if not cond:
            fails.append(name)
        print("  %-62s %s" % (name, "ok" if cond else "FAIL"))

    o = rp.encode_open(4200000000, 90, "1.2.3.4", [rp.cap_mp(1, 1), rp.cap_as4(4200000000), rp.cap_rr()], one_param_each=False)
    fr, rest = rp.deframe(o)
    m = rp.decode_open(fr[0].body)
    check("OPEN round trip (AS_TRANS + capability 65, one parameter)", (m.version, m.my_as, m.true_as, m.hold, m.bgp_id) == (4, 23456, 4200000000, 90, "1.2.3.4")
          and m.cap_codes() == [1, 2, 65] and not rest)
    u = rp.encode_update(["10.0.0.0/8"], {"origin": 2, "as_path": [(2, [65536, 1]), (1, [7])], "next_hop": "1.1.1.1", "med": 5,
                                           "local_pref": 7, "atomic": True, "aggregator": (65536, "2.2.2.2"), "communities": [0xFFFFFF01]},
                         ["192.168.1.128/25", "0.0.0.0/0"], as4=True)
    d = rp.decode_update(rp.deframe(u)[0][0].body, True)
    check("UPDATE round trip (4-octet, all subset attributes, /0 and /25)",
          d["withdrawn"] == ["10.0.0.0/8"] and d["nlri"] == ["192.168.1.128/25", "0.0.0.0/0"] and d["attrs"]["as_path"] == [(2, [65536, 1]), (1, [7])]
          and d["attrs"]["aggregator"] == (65536, "2.2.2.2") and d["attrs"]["communities"] == [0xFFFFFF01] and d["attrs"]["atomic"] is True)
    check("prefix trailing bits are masked", rp.decode_prefixes(bytes([9, 10, 0xFF])) == ["10.128.0.0/9"])
    try:
        rp.decode_prefixes(bytes([33, 1, 2, 3, 4, 5]))
        check("prefix length 33 rejected", False)
    except ValueError:
        check("prefix length 33 rejected", True)
    ka = rp.encode_keepalive()
    check("deframer: two frames + partial tail", [f.type for f in rp.deframe(ka + ka + ka[:7])[0]] == [4, 4] and rp.deframe(ka + ka + ka[:7])[1] == ka[:7])
    check("deframer: bad marker / length 18 / length 4097 / type 9",
          [rp.deframe(x)[0][0].error for x in (b"\x00" + ka[1:], rp.frame(4, b"", length=18), rp.frame(4, b"", length=4097), rp.frame(9, b""))]
          == [("marker", 1), ("length", 2), ("length", 2), ("type", 3)])
    check("deframer: length 4096 accepted", not rp.deframe(rp.frame(2, bytes(4077)))[0][0].error)
    cfg = {"hold_time": 180, "idle_hold_time": 30, "connect_retry_time": 30, "remote_as": 65002, "call_later": 15}
    mm = M.Model(cfg)
    mm = M.match_events(mm, [("fire",)], [("connect", 0)], 15.0)
    mm = M.match_events(mm, [("conn_ok", 0)], [("tx", 0, "OPEN")], 15.0)
    check("model: boot -> Connect -> OpenSent", mm is not None and mm.phase == "OpenSent")
    bad = M.match_events(mm, [("msg", 0, "keepalive", None)], [], 15.0)
    good = M.match_events(mm, [("msg", 0, "keepalive", None)], [("tx", 0, ("NOTIF", 5, 1)), ("lose", 0)], 15.0)
    check("model: KEEPALIVE in OpenSent must be answered with NOTIFICATION(5) + close", bad is None and good is not None and good.phase == "Idle")
    m2 = M.match_events(mm, [("msg", 0, "open", {"version": 4, "true_as": 65002, "hold": 9})], [("tx", 0, "KEEPALIVE")], 15.0)
    check("model: H = min(configured, proposed); timers at H/3 and H", m2.H == 9 and abs(m2.t_ka - 18.0) < 1e-9 and m2.t_hold == [24.0])
    check("model: missed hold expiry is reported", m2.missed(25.0)[0][0] in ("hold", "keepalive") and ("hold", 24.0) in m2.missed(25.0))
    return len(fails)


# --------------------------------------------------------------------------- mutants

MUTANTS = [
    # (name, property, file, old, new)
    ("keepalive_third_to_half", "C03", "yabgp/core/protocol.py",
     "self.fsm.keep_alive_time = self.fsm.hold_time / 3", "self.fsm.keep_alive_time = self.fsm.hold_time / 2"),
    ("no_hold_restart_on_update", "C03", "yabgp/core/fsm.py",
     "            if self.hold_time != 0:\n                self.hold_timer.reset(self.hold_time)\n", "            pass\n"),
    ("established_on_open", "C01", "yabgp/core/fsm.py",
     "            self.state = bgp_cons.ST_OPENCONFIRM\n\n        elif self.state == bgp_cons.ST_OPENCONFIRM:",
     "            self.state = bgp_cons.ST_ESTABLISHED\n\n        elif self.state == bgp_cons.ST_OPENCONFIRM:"),
    ("wrong_fsm_error_code", "C01", "yabgp/core/fsm.py",
     "            # States OpenSent, OpenConfirm, event 27\n            self.protocol.send_notification(bgp_cons.ERR_FSM, 0)",
     "            # States OpenSent, OpenConfirm, event 27\n            self.protocol.send_notification(bgp_cons.ERR_CEASE, 0)"),
    ("no_idle_hold_after_error", "C02", "yabgp/core/factory.py",
     "        if self.fsm.allow_automatic_start:\n            self.automatic_start(idle_hold=True)", "        pass"),
    ("framing_off_by_one", "C04", "yabgp/core/protocol.py",
     "        if length < bgp_cons.HDR_LEN or length > bgp_cons.MAX_LEN:", "        if length < bgp_cons.HDR_LEN or length >= bgp_cons.MAX_LEN:"),
    ("framing_consume_wrong_count", "C04", "yabgp/core/protocol.py",
     "        self._receive_buffer = self._receive_buffer[length:]\n        return True",
     "        self._receive_buffer = self._receive_buffer[max(length, 23):]\n        return True"),
    ("open_offers_negotiated_hold", "C05", "yabgp/core/protocol.py",
     "version=bgp_cons.VERSION, asn=self.factory.my_asn, hold_time=CONF.time.hold_time,",
     "version=bgp_cons.VERSION, asn=self.factory.my_asn, hold_time=self.fsm.hold_time,"),
    ("accept_hold_two", "C05", "yabgp/core/protocol.py",
     "        if hold_time != 0 and hold_time < 3:", "        if hold_time != 0 and hold_time < 2:"),
    ("update_error_tears_down", "C10", "yabgp/core/protocol.py",
     "            LOG.error('[%s] Update message error: sub error=%s', self.factory.peer_addr, result['sub_error'])\n            self.fsm.update_received()",
     "            LOG.error('[%s] Update message error: sub error=%s', self.factory.peer_addr, result['sub_error'])\n            self.fsm.header_error(1)"),
    ("abort_checks_wrong_connector_state", "C12", "yabgp/core/factory.py",
     "        if connector is not None and connector.state == 'connecting':", "        if connector is not None and connector.state == 'connected':"),
    ("close_without_abort", "C13", "yabgp/core/fsm.py",
     "        if self.bgp_peering:\n            # a pending connection attempt is dropped as well\n            self.bgp_peering.stop_connecting()\n", ""),
    ("late_close_resets_state", "C01", "yabgp/core/factory.py",
     "                if self.fsm.state != bgp_cons.ST_CONNECT:\n                    self.fsm.state = bgp_cons.ST_IDLE", "                self.fsm.state = bgp_cons.ST_IDLE"),
    ("stop_keeps_automatic_start", "C13", "yabgp/core/fsm.py",
     "        self.allow_automatic_start = False\n        self.state = bgp_cons.ST_IDLE\n        return True", "        self.state = bgp_cons.ST_IDLE\n        return True"),
    ("no_cease_on_stop", "C13", "yabgp/core/fsm.py",
     "        if self.state == bgp_cons.ST_ESTABLISHED:\n            self.protocol.send_notification(bgp_cons.ERR_CEASE, 0)\n        # Stop all timers",
     "        # Stop all timers"),
    ("state_route_without_auth", "C16", "yabgp/api/v1.py",
     "@blueprint.route('/peer/<peer_ip>/state')\n@auth.login_required\n", "@blueprint.route('/peer/<peer_ip>/state')\n"),
    ("send_gate_removed", "C16", "yabgp/api/v1.py",
     "@api_utils.makesure_peer_establish\ndef send_bin_update(peer_ip):", "def send_bin_update(peer_ip):"),
    ("keepalive_not_counted", "C18", "yabgp/core/protocol.py",
     "        self.msg_sent_stat['Keepalives'] += 1\n        LOG.info(\"[%s]Send a BGP KeepAlive", "        LOG.info(\"[%s]Send a BGP KeepAlive"),
    ("rib_not_flushed_on_loss", "C19", "yabgp/core/protocol.py",
     "        LOG.debug('Called connectionLost')\n        self.init_rib()", "        LOG.debug('Called connectionLost')"),
    ("version_bumped_on_same_attrs", "C19", "yabgp/core/protocol.py",
     "                    if msg['attr'] == self.adj_rib_in['ipv4'][prefix]:\n                        pass",
     "                    if msg['attr'] == self.adj_rib_in['ipv4'][prefix]:\n                        self.receive_version['ipv4'] += 1"),
    ("seq_not_incremented_after_rotation", "C20", "yabgp/handler/default_handler.py",
     "        for file_name in reversed(file_list):", "        for file_name in reversed(file_list[-1:]):"),
    ("no_fsync", "C20", "yabgp/handler/default_handler.py",
     "            os.fsync(msg_file.fileno())", "            pass"),
    # ---- fault kinds added in round 5
    ("seq_advanced_after_fsync", "C20", "yabgp/handler/default_handler.py",
     "            msg_file.write(line + '\\n')\n            self.msg_sequence[peer.lower()] += 1\n            msg_file.flush()\n            os.fsync(msg_file.fileno())",
     "            msg_file.write(line + '\\n')\n            msg_file.flush()\n            os.fsync(msg_file.fileno())\n            self.msg_sequence[peer.lower()] += 1"),
    ("rotation_name_follows_stepped_clock", "C20", "yabgp/handler/default_handler.py",
     "                if now < newest:", "                if False:"),
    ("open_handler_before_fsm", "C01", "yabgp/core/protocol.py",
     "        self.fsm.open_received()\n\n        self.handler.open_received(self, timestamp, parse_result)",
     "        self.handler.open_received(self, timestamp, parse_result)\n        self.fsm.open_received()"),
    ("keepalive_from_proposed_hold", "C02", "yabgp/core/protocol.py",
     "        self.fsm.keep_alive_time = self.fsm.hold_time / 3", "        self.fsm.keep_alive_time = hold_time / 3"),
    ("start_event_restarts_attempt_in_connect", "C01", "yabgp/core/factory.py",
     "        if self.fsm.state == bgp_cons.ST_IDLE:\n            if self.fsm.automatic_start(idle_hold):\n                self.status = True\n                # Create outbound connection as a client\n                self.connect()",
     "        if self.fsm.state in (bgp_cons.ST_IDLE, bgp_cons.ST_CONNECT):\n            self.fsm.state = bgp_cons.ST_IDLE\n            if self.fsm.automatic_start(idle_hold):\n                self.status = True\n                # Create outbound connection as a client\n                self.connect()"),
]


# Behaviour-preserving (or still property-conforming) variants: NO check may raise an alarm on them.
EQUIVALENTS = [
    ("close_before_notification_write", ["C01", "C04", "C10"], "yabgp/core/fsm.py",
     "        self.protocol.send_notification(bgp_cons.ERR_MSG_HDR, suberror, data)\n        # Note: RFC4271 states that we should send ERR_FSM in the\n        # Established state, which contradicts earlier statements.\n        self._error_close()",
     "        self._error_close()\n        self.protocol.send_notification(bgp_cons.ERR_MSG_HDR, suberror, data)"),
    ("rfc6608_fsm_error_subcodes", ["C01", "C04"], "yabgp/core/fsm.py",
     "            # States OpenSent, OpenConfirm, event 27\n            self.protocol.send_notification(bgp_cons.ERR_FSM, 0)",
     "            # States OpenSent, OpenConfirm, event 27\n            self.protocol.send_notification(bgp_cons.ERR_FSM, 1 if self.state == bgp_cons.ST_OPENSENT else 2)"),
    ("cease_on_stop_before_established", ["C01", "C13"], "yabgp/core/fsm.py",
     "        if self.state == bgp_cons.ST_ESTABLISHED:\n            self.protocol.send_notification(bgp_cons.ERR_CEASE, 0)\n        # Stop all timers",
     "        if self.state in (bgp_cons.ST_OPENSENT, bgp_cons.ST_OPENCONFIRM, bgp_cons.ST_ESTABLISHED):\n            self.protocol.send_notification(bgp_cons.ERR_CEASE, 2)\n        # Stop all timers"),
    ("keepalive_every_quarter_hold_time", ["C01", "C03", "C05", "C02"], "yabgp/core/protocol.py",
     "        self.fsm.keep_alive_time = self.fsm.hold_time / 3", "        self.fsm.keep_alive_time = self.fsm.hold_time / 4"),
    ("short_damping_after_error", ["C01", "C02", "C10", "C12"], "yabgp/core/fsm.py",
     "        self.idle_hold_timer.reset(self.idle_hold_time)\n\n        # Release BGP resources (routes, etc)",
     "        self.idle_hold_timer.reset(min(self.idle_hold_time, 1))\n\n        # Release BGP resources (routes, etc)"),
]


def equivalents(props, runs=None):
    bad = 0
    tmp = tempfile.mkdtemp(prefix="yabgp-selftest-")
    try:
        for name, checks, rel, old, new in EQUIVALENTS:
            dst = os.path.join(tmp, "repo")
            if os.path.exists(dst):
                shutil.rmtree(dst)
            shutil.copytree(os.path.join(bootstrap.REPO, "yabgp"), os.path.join(dst, "yabgp"),
                            ignore=shutil.ignore_patterns("__pycache__"))
            path = os.path.join(dst, rel)
            src = open(path).read()
            if src.count(old) != 1:
                print("variant %-36s NOT-APPLICABLE (pattern found %d times)" % (name, src.count(old)))
                bad += 1
                continue
            open(path, "w").write(src.replace(old, new))
            for prop in checks:
                if props and prop not in props:
                    continue
                env = dict(os.environ)
                env["VERIF_REPO"] = dst
                env["VERIF_EVIDENCE_DIR"] = os.path.join(tmp, "evidence")
                env["VERIF_REPLAY_DIR"] = os.path.join(tmp, "replays")
                cmd = [sys.executable, CHECK, prop, "--tier", "quick"]
                if runs:
                    cmd += ["--runs", str(runs)]
                p = subprocess.run(cmd, env=env, stdout=subprocess.PIPE, stderr=subprocess.STDOUT, timeout=3600)
                out = p.stdout.decode("latin1")
                sig = [l.strip() for l in out.splitlines() if l.strip().startswith("signature")]
                ok = p.returncode == 0
                print("variant %-36s %s  %s  %s" % (name, prop, "quiet" if ok else "FALSE ALARM (exit %d)" % p.returncode,
                                                   sig[0][:120] if sig else ""))
                if not ok:
                    bad += 1
    finally:
        shutil.rmtree(tmp, ignore_errors=True)
    return bad


def mutants(props, runs=None):
    bad = 0
    tmp = tempfile.mkdtemp(prefix="yabgp-selftest-")
    try:
        for name, prop, rel, old, new in MUTANTS:
            if props and prop not in props:
                continue
            dst = os.path.join(tmp, "repo")
            if os.path.exists(dst):
                shutil.rmtree(dst)
            shutil.copytree(os.path.join(bootstrap.REPO, "yabgp"), os.path.join(dst, "yabgp"),
                            ignore=shutil.ignore_patterns("__pycache__"))
            path = os.path.join(dst, rel)
            src = open(path).read()
            if src.count(old) != 1:
                print("mutant %-36s %s  NOT-APPLICABLE (pattern found %d times)" % (name, prop, src.count(old)))
                bad += 1
                continue
            open(path, "w").write(src.replace(old, new))
            env = dict(os.environ)
            env["VERIF_REPO"] = dst
            env["VERIF_EVIDENCE_DIR"] = os.path.join(tmp, "evidence")
            env["VERIF_REPLAY_DIR"] = os.path.join(tmp, "replays")
            cmd = [sys.executable, CHECK, prop, "--tier", "quick"]
            if runs:
                cmd += ["--runs", str(runs)]
            p = subprocess.run(cmd, env=env, stdout=subprocess.PIPE, stderr=subprocess.STDOUT, timeout=3600)
            out = p.stdout.decode("latin1")
            sig = [l.strip() for l in out.splitlines() if l.strip().startswith("signature")]
            caught = p.returncode == 1 and "VIOLATION property=%s" % prop in out
            print("mutant %-36s %s  %s  %s" % (name, prop, "CAUGHT" if caught else "MISSED (exit %d)" % p.returncode,
                                              sig[0][:110] if sig else ""))
            if not caught:
                bad += 1
                print(out[-600:])
    finally:
        shutil.rmtree(tmp, ignore_errors=True)
    return bad


def main(argv, seed, jobs):
    import argparse
    ap = argparse.ArgumentParser(prog="check.py selftest")
    ap.add_argument("--determinism", type=int, default=0)
    ap.add_argument("--standins", action="store_true")
    ap.add_argument("--mutants", action="store_true")
    ap.add_argument("--equivalents", action="store_true")
    ap.add_argument("--props", default="")
    ap.add_argument("--runs", type=int, default=None)
    a = ap.parse_args(argv)
    from sim import profiles
    props = [p for p in a.props.split(",") if p] or profiles.ids()
    bad = 0
    if not (a.determinism or a.standins or a.mutants or a.equivalents):
        a.standins = True
        a.determinism = 300
    if a.standins:
        print("stand-in contract tests")
        bad += standins()
        print("reference peer / model sanity tests")
        bad += refpeer_tests()
    if a.determinism:
        bad += determinism(props, a.determinism)
        bad += replay_equivalence(props, max(50, a.determinism // 2))
    if a.mutants:
        bad += mutants([p for p in a.props.split(",") if p], a.runs)
    if a.equivalents:
        bad += equivalents([p for p in a.props.split(",") if p], a.runs)
    print("selftest: %s" % ("OK" if not bad else "%d FAILED" % bad))
    return 0 if not bad else 2
