"""Profile `rest` (C16): the REST control surface is authenticated, state-gated, and sends are
faithful.  Routes are enumerated from the real Flask url_map at run time."""
import re
import socket
import struct

from sim import refpeer as rp
from sim.engine import Violation
from sim.profiles import base
from sim.profiles.base import URL, PEER
from sim.profiles.fsm import FsmCtx, FsmProfile, swarm_config, PHASES

METHODS = ["GET", "POST", "HEAD", "PUT", "DELETE", "PATCH", "OPTIONS"]
CREDS = ["none", "baduser", "badpass", "empty", "unknown_nopw", "known_nopw", "case", "user_prefix", "user_infix", "shifted",
         "user_is_both", "user_nonascii", "user_nonascii_tail", "ok"]
SEND_ROUTES = ("send/update", "send/route-refresh", "send/bin_update")
GATED_ROUTES = SEND_ROUTES + ("adj-rib-in", "adj-rib-out", "json_to_bin")
WELL_KNOWN = {"NO_EXPORT": 0xFFFFFF01, "NO_ADVERTISE": 0xFFFFFF02}
_RULES = None


def rules():
    """[(suffix under /v1/peer/<ip>/, sorted methods)] from the application's URL map."""
    global _RULES
    if _RULES is None:
        from yabgp.api.app import app
        out = []
        for r in app.url_map.iter_rules():
            s = str(r.rule)
            if s.startswith("/v1/peer/<peer_ip>/"):
                out.append((s[len("/v1/peer/<peer_ip>/"):], sorted(r.methods)))
        _RULES = sorted(out)
    return _RULES


def ext_comm_expected(items, peer_as4):
    """RFC 4360 / RFC 5668 encoding of the API's 'route-target:<a>:<n>[,<a>:<n>...]' / 'route-origin:...' texts,
    in request order.  None: contains a case this model does not fix."""
    import socket
    import struct
    out = b""
    for item in items:
        key, value = item.split(":", 1)
        k_ = key.strip().lower()
        if k_ in ("color-00", "color-01", "color-10", "color-11"):
            # RFC 9012 Color extended community: 03 0b, flags CO in the two top bits, 4-octet colour
            for v in value.strip().split(","):
                out += bytes([0x03, 0x0b, int(k_[-2:], 2) << 6, 0]) + struct.pack("!I", int(v))
            continue
        sub = {"route-target": 2, "route-origin": 3}.get(k_)
        if sub is None:
            return None
        for v in value.strip().split(","):
            adm, num = v.strip().split(":", 1)
            num = int(num)
            if "." in adm:
                if num > 65535:
                    return None
                out += bytes([0x01, sub]) + socket.inet_aton(adm) + struct.pack("!H", num)
            elif int(adm) <= 65535:
                out += bytes([0x00, sub]) + struct.pack("!HI", int(adm), num)
            else:
                if not peer_as4 or num > 65535:
                    return None
                out += bytes([0x02, sub]) + struct.pack("!IH", int(adm), num)
    return out


def comm_to_int(c):
    if c.upper() in WELL_KNOWN:
        return WELL_KNOWN[c.upper()]
    a, b = c.split(":")
    return (int(a) << 16) + int(b)


def snapshot(w):
    f = w.factory
    fsm = f.fsm
    p = fsm.protocol
    timers = sorted((round(c.time, 6), c.kind, c.name()) for c in w.reactor._calls if c.active())
    conns = tuple((c.cid, c.state, len(c.written), c.closing(), c.c.aborted) for c in w.conns)
    from oslo_config import cfg as ocfg
    rc = ocfg.CONF.bgp.running_config
    proto = None
    if p is not None:
        proto = (repr(p.adj_rib_in), repr(p.adj_rib_out), repr(p.send_version), repr(p.receive_version),
                 repr(p.msg_sent_stat), repr(p.msg_recv_stat), repr(sorted(p.flowspec_send_dict)), p.fourbytesas)
    return (w.state(), timers, conns, proto, repr(rc["capability"]), fsm.allow_automatic_start, fsm.hold_time,
            id(p), f.estab_protocol is p)


class RestCtx(FsmCtx):
    escape_is_violation = False
    exceptions_end_run = False
    prop = "C16"
    soft = True
    regime_exit = False

    def __init__(self, cfg, tier):
        FsmCtx.__init__(self, cfg, tier)
        self.pending = []        # expectations for deferred writes
        self.prefix_left = cfg["prefix_len"]
        self.probe_next = None

    # ------------------------------------------------------------------ generation
    def plan_target(self, rng):
        self.target = (rng.weighted([("Established", 6), ("OpenConfirm", 1), ("OpenSent", 1), ("Connect", 1), ("Idle", 1)]),
                       "read_state")
        self.planned = True

    def choose(self, rng):
        w = self.world
        if w.exited or w.ops_done + w.ops_skipped >= self.cfg["max_ops"]:
            return None
        # a deferred write from a successful send is pending: usually let it run next
        thread_due = [i for i, c in enumerate(w.reactor.due()) if c.kind == "thread" and c.time <= w.now()]
        if thread_due and rng.chance(0.9):
            return ["fire", thread_due[0]]
        if getattr(self, "only_it", None) is not None and rng.chance(0.8):
            now_due = [i for i, c in enumerate(w.reactor.due()) if c.time <= w.now()]
            if now_due:
                return ["fire", now_due[0]]
        if self.cfg.get("two_sessions") and getattr(self, "ts_phase", 0) is not None:
            op = self.two_session_script(rng)
            if op is not None:
                return op
        if self.prefix_left > 0:
            self.prefix_left -= 1
            op = FsmCtx.choose(self, rng)
            if op is not None:
                return op
        if rng.chance(0.2):
            op = FsmCtx.choose(self, rng)
            if op is not None and not (op[0] == "rest"):
                return op
        return self.probe(rng)

    def two_session_script(self, rng):
        """Scenario: a REST announcement in one session, the session ends, the next session negotiates the
        other AS-number width, the operator sends the same attribute set again."""
        w = self.world
        cfg = self.cfg
        st = w.state()
        live = w.live_conns()
        ph = getattr(self, "ts_phase", 0)
        url = "/v1/peer/%s/send/update" % PEER
        if ph == 0:
            if st != "ESTABLISHED" or cfg["remote_as"] > 65535:
                return None
            if not getattr(self, "ts_rr_done", False) and rng.chance(0.5):
                # first a route refresh for IPv4 unicast in this session (repeated in the next one)
                self.ts_rr_done = True
                self.ts_rr = True
                return ["rest", "POST", "/v1/peer/%s/send/route-refresh" % PEER, "ok", {"afi": 1, "safi": 1, "res": 0}]
            self.ts_phase = 1
            self.ts_as4 = bool(getattr(w.factory.fsm.protocol, "fourbytesas", False))
            self.ts_body = {"attr": {"1": 0, "2": [[2, [rng.pick([100, 64512, 65001]), rng.pick([1, 64999])]]], "3": "10.9.8.7", "5": 100},
                            "nlri": [rng.pick(base.PREFIX_POOL)]}
            return ["rest", "POST", url, "ok", self.ts_body]
        if ph == 1:
            k = [i for i, c in enumerate(live) if c.readable()]
            if st != "ESTABLISHED" or not k:
                self.ts_phase = None
                return None
            self.ts_phase = 2
            try:
                from oslo_config import cfg as ocfg
                self.ts_rem1 = dict(ocfg.CONF.bgp.running_config["capability"]["remote"] or {})
            except Exception:
                self.ts_rem1 = {}
            return ["pclose", k[-1], True]
        if ph == 2:
            for k, c in enumerate(live):
                if c.closing():
                    return ["cdone", k]
            for k, c in enumerate(live):
                if c.state == "connecting":
                    return ["conn_ok", k]
            k = [i for i, c in enumerate(live) if c.readable()]
            if st == "OPENSENT" and k:
                # (the other route-refresh code point than the first session's peer offered, if it offered only one)
                rem = {}
                try:
                    from oslo_config import cfg as ocfg
                    rem = ocfg.CONF.bgp.running_config["capability"]["remote"] or {}
                except Exception:
                    pass
                rr_cap = rp.cap_rr() if "cisco_route_refresh" in getattr(self, "ts_rem1", rem) else rp.cap_rr_cisco()
                caps = [rp.cap_mp(1, 1), rr_cap] + ([] if self.ts_as4 else [rp.cap_as4(cfg["remote_as"])])
                self.ts_phase = 3
                return ["send", k[-1], rp.encode_open(cfg["remote_as"], 90, "2.2.2.2", caps).hex(), []]
            if w.reactor.due():
                return ["fire", 0]
            self.ts_phase = None
            return None
        if ph == 3:
            k = [i for i, c in enumerate(live) if c.readable()]
            if st == "OPENCONFIRM" and k:
                return ["send", k[-1], rp.encode_keepalive().hex(), []]
            if st == "ESTABLISHED" and getattr(self, "ts_rr", False):
                self.ts_rr = False
                return ["rest", "POST", "/v1/peer/%s/send/route-refresh" % PEER, "ok", {"afi": 1, "safi": 1, "res": 0}]
            self.ts_phase = None
            if st == "ESTABLISHED":
                self.stats["gen:same_attributes_in_second_session_with_other_as_width"] += 1
                b = dict(self.ts_body)
                if rng.chance(0.5):
                    b["nlri"] = [rng.pick(base.PREFIX_POOL)]
                return ["rest", "POST", url, "ok", b]
            return None
        return None

    def probe(self, rng):
        cfg = self.cfg
        suffix, methods = rng.pick(rules())
        established = self.world.state() == "ESTABLISHED"
        r = rng.random()
        if established and r < 0.5:
            # faithful-send probes
            suffix = rng.pick(SEND_ROUTES)
            method, cred = "POST", "ok"
        elif r < 0.75:
            method = rng.pick([m for m in methods if m != "OPTIONS"] or ["GET"])
            cred = rng.pick(CREDS[:-1])
        else:
            method = rng.pick(METHODS)
            cred = rng.pick(CREDS)
        if rng.chance(0.3):
            # the client states which content types it accepts (the answer's status must not depend on it)
            cred = cred + "@" + rng.pick(["json", "any", "html"])
        path = "/v1/peer/%s/%s" % (rng.pick([PEER, PEER, "1.2.3.4"]), suffix)
        path = path.replace("<action>", rng.pick(["send", "received", "x"]))
        # (any further placeholder of a rule in the URL map gets a plausible value)
        path = re.sub(r"<[^>/]+>", lambda m: rng.pick(["send", "received", "1", "x"]), path)
        body = None
        query = None
        if method in ("POST", "PUT", "PATCH"):
            body = self.body_for(rng, suffix)
        if suffix in ("send/bin_update", "json_to_bin") and rng.chance(0.2):
            query = "format=human"
            if suffix == "send/bin_update" and isinstance(body, dict) and isinstance(body.get("binary_data"), str):
                hx = body["binary_data"]
                body = {"binary_data": [" ".join(hx[i:i + 2] for i in range(0, len(hx), 2))]}
        op = ["rest", method, path, cred, body]
        if query:
            op.append(query)
        return op

    def body_for(self, rng, suffix):
        cfg = self.cfg
        if rng.chance(0.05):
            return rng.pick([{}, [], {"x": 1}])
        if suffix == "send/route-refresh":
            b = {"afi": rng.pick([1, 1, 2, 2, 25]), "safi": rng.pick([1, 1, 2, 70, 128, 133])}
            fams = base.remote_families()
            if fams and rng.chance(0.5):
                b["afi"], b["safi"] = rng.pick(fams)     # a family the peer did advertise
            if rng.chance(0.3):
                b["res"] = rng.pick([0, 1, 255])
            return b
        if suffix == "send/bin_update":
            msg = base.gen_update(rng, cfg, False)
            return {"binary_data": msg.hex()}
        if suffix in ("adj-rib-in", "adj-rib-out"):
            return {"data": [rng.pick(base.PREFIX_POOL)]}
        if suffix == "send/update" and rng.chance(0.03):
            # a maximum-size announcement: 4096 octets on the wire (or just below / refused just above)
            ibgp = cfg["local_as"] == cfg["remote_as"]
            as4 = bool(getattr(self.world.factory.fsm.protocol, "fourbytesas", False))
            attrs_len = 4 + (3 + 2 + (4 if as4 else 2)) + 7 + (7 if ibgp else 0)
            room = rng.pick([4096, 4096, 4095, 4090]) - 23 - attrs_len
            n, r = divmod(room, 4)
            nlri = ["10.%d.%d.0/24" % (i // 256, i % 256) for i in range(n)] + {0: [], 1: ["0.0.0.0/0"], 2: ["11.0.0.0/8"], 3: ["11.1.0.0/16"]}[r]
            self.stats["gen:maximum_size_announcement"] += 1
            attr = {"1": 0, "2": [[2, [100]]], "3": "10.0.0.1"}
            if ibgp:
                attr["5"] = 100
            return {"attr": attr, "nlri": nlri}
        # send/update, json_to_bin (and anything else): an UPDATE dictionary
        prev = getattr(self, "gen_prev_bodies", None)
        if prev is None:
            prev = self.gen_prev_bodies = []
        if suffix == "send/update" and prev and rng.chance(0.3):
            # the operator announces with the attribute set of an earlier request again (possibly in a later
            # session with other negotiated capabilities), same or other prefixes
            import copy
            b = copy.deepcopy(rng.pick(prev))
            if rng.chance(0.5) and b.get("nlri"):
                b["nlri"] = [rng.pick(base.PREFIX_POOL)]
            self.stats["gen:repeated_attribute_set"] += 1
            return b
        nlri = sorted(set(rng.pick(base.PREFIX_POOL) for _ in range(rng.randrange(0, 3))))
        withdraw = sorted(set(rng.pick(base.PREFIX_POOL) for _ in range(rng.randrange(0, 3)))) if rng.chance(0.5) else []
        for lst in (nlri, withdraw):
            if lst and rng.chance(0.2):
                # an aggregate and a more specific route with the same network address in one request
                addr, ln = rng.pick(lst).split("/")
                if int(ln) < 32:
                    lst.append("%s/%d" % (addr, min(32, int(ln) + rng.pick([1, 8]))))
                    self.stats["gen:same_address_two_prefix_lengths"] += 1
        attr = {}
        if nlri or rng.chance(0.3):
            attr["1"] = rng.randrange(3)
            attr["2"] = [[2, [rng.pick([1, 100, 64512, 65535, 65536, 4200000000]) for _ in range(rng.randrange(0, 4))]]]
            if rng.chance(0.2):
                attr["2"].append([1, [rng.randrange(1, 65535) for _ in range(rng.randrange(1, 3))]])
            attr["3"] = "10.%d.%d.1" % (rng.randrange(256), rng.randrange(256))
            if rng.chance(0.5):
                attr["4"] = rng.pick([0, 1, 2 ** 32 - 1, rng.randrange(2 ** 32)])
            if rng.chance(0.4):
                attr["5"] = rng.pick([0, 100, 200, 2 ** 32 - 1])
            if rng.chance(0.2):
                attr["6"] = ""
            if rng.chance(0.2):
                attr["7"] = [rng.pick([1, 65535, 65536]), "10.9.9.9"]
            if rng.chance(0.4):
                attr["8"] = [rng.pick(["NO_EXPORT", "NO_ADVERTISE", "100:200", "65535:1", "1:65535", "0:0"]) for _ in range(rng.randrange(1, 3))]
            if rng.chance(0.25):
                # extended communities in the API's text form: route targets / origins with 2-octet AS numbers
                # (incl. the boundary 65535), 4-octet AS numbers and IPv4 administrators
                vals = [rng.pick(["65000:1", "65535:100", "1:4294967295", "0:0", "65535:0", "10.1.1.1:5", "192.0.2.255:65535",
                                  "65536:7", "4200000000:65535"]) for _ in range(rng.randrange(1, 4))]
                attr["16"] = ["%s:%s" % (rng.pick(["route-target", "route-target", "route-origin"]), ",".join(vals))]
                if rng.chance(0.3):
                    attr["16"].append("route-target:%s" % rng.pick(["64512:9", "65535:65535"]))
                if rng.chance(0.25):
                    attr["16"].append("%s:%d" % (rng.pick(["color-00", "color-01", "color-10", "color-11"]), rng.pick([0, 1, 100, 2 ** 32 - 1])))
                self.stats["gen:extended_communities_in_request"] += 1
        if rng.chance(0.08):
            # degenerate request shapes: routes without path attributes, empty attribute values, an MP_UNREACH
            # that withdraws nothing (must be refused or sent faithfully - and counted accordingly)
            shape = rng.pick(["nlri_only", "empty_attr", "empty_unreach", "empty_ext_comm", "withdraw_and_empty_attr"])
            pfx = [rng.pick(base.PREFIX_POOL)]
            self.stats["gen:degenerate_update_request"] += 1
            if shape == "nlri_only":
                return {"nlri": pfx}
            if shape == "empty_attr":
                return {"attr": {}, "nlri": pfx}
            if shape == "empty_unreach":
                return {"attr": {"15": {"afi_safi": [1, 133], "withdraw": []}}}
            if shape == "empty_ext_comm":
                return {"attr": {"1": 0, "2": [], "3": "10.0.0.1", "5": 100, "16": []}, "nlri": pfx}
            return {"attr": {}, "withdraw": pfx}
        if rng.chance(0.08):
            # a multiprotocol payload: judged as opaque bytes against a direct codec call
            attr = {"1": 0, "2": [], "5": 100,
                    "14": {"afi_safi": [2, 1], "nexthop": "2001:db8::1", "nlri": ["2001:db8:%x::/48" % rng.randrange(65536)]}}
            nlri, withdraw = [], []
        if attr and "14" not in attr and rng.chance(0.06):
            # a request the encoder cannot build: must be refused, nothing may be written
            bad = rng.pick(["nexthop6", "prefix33", "aspath", "origin", "med"])
            if bad == "nexthop6":
                attr["3"] = "fe80::1"
            elif bad == "prefix33":
                nlri = ["10.0.0.0/33"]
            elif bad == "aspath":
                attr["2"] = [[2, ["x"]]]
            elif bad == "origin":
                attr["1"] = "igp"
            else:
                attr["4"] = 2 ** 32
            self.stats["gen:unencodable_request"] += 1
        b = {}
        if attr:
            b["attr"] = attr
        if nlri or rng.chance(0.3):
            b["nlri"] = nlri
        if withdraw or rng.chance(0.3):
            b["withdraw"] = withdraw
        if suffix == "send/update" and "attr" in b and "14" not in b["attr"] and len(prev) < 6:
            prev.append(b)
        return b

    # ------------------------------------------------------------------ oracle
    def step(self, op):
        w = self.world
        if op[0] == "rest":
            self.seq_before_rest = w.reactor._seq
            self.snap = snapshot(w)
            self.est_before = w.state() == "ESTABLISHED"
            self.cur_before = self.current_cid()
        self.written_before = {c.cid: len(c.written) for c in w.conns}
        FsmCtx.step(self, op)

    def current_cid(self):
        p = self.world.factory.fsm.protocol
        tr = getattr(p, "transport", None)
        return getattr(tr, "cid", None)

    def after_step(self, op, pos, evs, labels, toks, handler, cell):
        w = self.world
        # "... and only it": calls that become due at the very instant of a successful send (the deferred
        # write itself, zero-delay timers) may put nothing but the requested message on the wire
        oi = getattr(self, "only_it", None)
        if oi is not None:
            if w.now() > oi["t"] + 1e-9 or op[0] not in ("fire", "rest"):
                self.only_it = None
            elif op[0] == "fire":
                fired = [e for e in w.log[pos:] if e[2] == "fire"]
                # only calls scheduled or re-timed by the send itself count (a timer that was due at this
                # instant anyway is none of the send's business)
                caused = bool(fired) and fired[0][5] > oi["seq"]
                for t in toks if caused else []:
                    if t[0] == "tx" and t[1] == oi["cid"]:
                        if t[2] == "UPDATE" and oi["allowed"] > 0:
                            oi["allowed"] -= 1
                        else:
                            raise Violation("C16", "send", "%s/extra-message-at-the-instant-of-the-send:%s" % (oi["what"], self.abs_tok(t).split("(")[0]),
                                            "%s reported success; besides the requested message the agent wrote %s at the same "
                                            "instant (negotiated hold time %s)" % (oi["what"], self.abs_tok(t), w.factory.fsm.hold_time))
        # resolve deferred writes
        for e in w.log[pos:]:
            if e[2] == "fire" and e[3] == "thread":
                self.resolve_deferred(pos)
            elif e[2] == "closed":
                # the connection is GONE before the deferred write ran: the message is lost in flight. (A close the
                # agent has only asked for does not excuse it: what is written until the close completes is still
                # sent, Appendix B, and the request was answered 'status: true'.)
                for ex in self.pending:
                    if ex["cid"] == e[3]:
                        ex["conn_ended"] = True
        if op[0] != "rest":
            return
        method, path, cred = op[1], op[2], op[3]
        if not path.startswith("/v1/peer/"):
            return          # (the liveness poll GET /v1/ of the shared generator: outside the URL map the property names)
        if "@" in cred:
            self.stats["rest_with_accept_header"] += 1
            cred = cred.split("@", 1)[0]
        body = op[4] if len(op) > 4 else None
        res = w.last_rest
        status = res.get("status")
        js = res.get("json")
        suffix = path.split("/", 4)[4] if path.count("/") >= 4 else path
        rule = None
        for s, methods in rules():
            pat = "^" + re.sub(r"<[^>]+>", "[^/]+", re.sub(r"([.+*?()\[\]])", r"\\\1", s)) + "$"
            if s == suffix or re.match(pat, suffix):
                rule = (s, methods)
        state = self.snap[0]
        self.stats["rest:%s:%s" % (method if method in ("GET", "POST") else "other", cred)] += 1
        self.cells.add("%s/%s/%s/%s" % (state, rule[0] if rule else "?", method, cred if cred == "ok" else "nocred"))
        after = snapshot(w)
        registered = rule is not None and method in rule[1] and method != "OPTIONS"
        what = "%s %s" % (method, rule[0] if rule else suffix)
        # ---- 1. authentication
        if registered and cred != "ok":
            self.stats["unauthenticated_probe"] += 1
            if status != 401:
                raise Violation("C16", "auth", "%s/%s/status-%s" % (what, cred, status),
                                "%s with credentials '%s' answered %s %s; must be 401" % (what, cred, status, str(js)[:200]))
            if after != self.snap:
                raise Violation("C16", "auth", "%s/%s/had-effect" % (what, cred),
                                "%s with credentials '%s' was rejected but changed the agent: %s" % (what, cred, diff(self.snap, after)))
            return
        if not registered:
            self.stats["unregistered_method_probe"] += 1
            if after != self.snap:
                raise Violation("C16", "method", "%s/had-effect" % what,
                                "%s (method not registered for the route) changed the agent: %s" % (what, diff(self.snap, after)))
            if isinstance(js, dict) and ("peer" in js or "send" in js or "version" in js):
                raise Violation("C16", "method", "%s/reveals-state" % what, "%s answered with peer state: %s" % (what, str(js)[:200]))
            return
        # ---- valid credentials, registered method
        if status == 401 and self.cfg["username"] == "":
            # HTTP basic authentication has no way to present an empty user name: with a blank configured user
            # nobody can log in (the surface stays closed, which is what the property asks for)
            self.stats["blank_user_configured:nobody_can_log_in"] += 1
            if snapshot(w) != self.snap:
                raise Violation("C16", "auth", "%s/refused-request-took-effect" % what, "%s answered 401 but changed the agent" % what)
            return
        if status == 401:
            raise Violation("C16", "auth", "%s/ok-credentials-rejected" % what, "%s with the configured credentials answered 401" % what)
        gated = rule[0] in GATED_ROUTES
        if gated and not self.est_before:
            self.stats["gated_probe_outside_established"] += 1
            ok = isinstance(js, dict) and js.get("status") is False
            if not ok:
                raise Violation("C16", "gate", "%s/state-%s/not-refused" % (what, state),
                                "%s in state %s must report failure; answered %s %s" % (what, state, status, str(js)[:200]))
            if after != self.snap:
                raise Violation("C16", "gate", "%s/state-%s/had-effect" % (what, state),
                                "%s in state %s reported failure but changed the agent: %s" % (what, state, diff(self.snap, after)))
            return
        if rule[0] in ("state", "statistic") or rule[0].startswith("version/"):
            if after != self.snap:
                raise Violation("C16", "read-only", "%s/had-effect" % what, "%s changed the agent: %s" % (what, diff(self.snap, after)))
            return
        if rule[0] in SEND_ROUTES and self.est_before:
            self.judge_send(rule[0], op, body, js, status, pos)

    # ---- faithful sends
    def judge_send(self, route, op, body, js, status, pos):
        w = self.world
        cid = self.cur_before
        c = w.conns[cid]
        grown = c.written[self.written_before.get(cid, 0):]
        others = [k for k in self.written_before if k != cid and len(w.conns[k].written) != self.written_before[k]]
        ok = isinstance(js, dict) and js.get("status") is True
        what = "POST %s" % route
        if others:
            raise Violation("C16", "send", "%s/wrote-to-other-connection" % what, "%s wrote on connection(s) %s, current is #%d" % (what, others, cid))
        if not ok:
            self.stats["send_refused"] += 1
            if grown:
                raise Violation("C16", "send", "%s/reported-failure-but-wrote" % what,
                                "%s answered %s but wrote %s" % (what, str(js)[:120], rp.describe(grown)))
            return
        self.stats["send_ok:" + route] += 1
        self.nontrivial = True
        if route == "send/route-refresh":
            frames, rest = rp.deframe(grown)
            # the code point must be one the peer of THIS session advertised (2 -> type 5, 128 -> type 128)
            allowed = set()
            try:
                # (a peer that repeats its OPEN with other capabilities: either set may be the one in force)
                for po in [f for f in rp.deframe(c.delivered)[0] if f.type == rp.OPEN and not f.error]:
                    codes = [code for code, _ in rp.decode_open(po.body).caps]
                    if 2 in codes:
                        allowed.add(rp.ROUTE_REFRESH)
                    if 128 in codes:
                        allowed.add(rp.CISCO_ROUTE_REFRESH)
            except (IndexError, ValueError):
                pass
            if not allowed:
                allowed = {rp.ROUTE_REFRESH, rp.CISCO_ROUTE_REFRESH}
            good = len(frames) == 1 and not rest and not frames[0].error and frames[0].type in allowed
            if good:
                afi, res, safi = rp.decode_route_refresh(frames[0].body)
                good = (afi, safi, res) == (body["afi"], body["safi"], body.get("res", 0))
            if not good:
                raise Violation("C16", "send", "%s/wire-differs" % what,
                                "%s %s reported success; wire shows %s (%s)" % (what, body, rp.describe(grown), grown.hex()[:80]))
            return
        # update / bin_update are written by a deferred call on the reactor thread
        if grown:
            raise Violation("C16", "send", "%s/wrote-synchronously-something-else" % what, "%s wrote %s before its deferred write" % (what, rp.describe(grown)))
        self.only_it = {"cid": cid, "t": w.now(), "what": what, "allowed": 1, "seq": self.seq_before_rest}
        exp = {"cid": cid, "route": route, "body": body, "off": len(c.written), "query": op[5] if len(op) > 5 else None,
               "as4": self.session_as4(cid), "conn_ended": False, "ibgp": self.cfg["local_as"] == self.cfg["remote_as"]}
        self.pending.append(exp)

    def session_as4(self, cid):
        proto = self.world.factory.fsm.protocol
        return bool(getattr(proto, "fourbytesas", False))

    def resolve_deferred(self, pos):
        w = self.world
        if not self.pending:
            return
        ex = self.pending.pop(0)
        c = w.conns[ex["cid"]]
        # bytes written by this deferred call itself (other writers -- timers, route refresh -- may
        # have used the connection between the request and now)
        grown = c.written[self.written_before.get(ex["cid"], 0):]
        what = "POST %s" % ex["route"]
        if not grown:
            if ex["conn_ended"] or not (c.c.transport is not None and c.c.transport.connected):
                self.stats["send_lost_in_flight_at_close"] += 1
                return
            raise Violation("C16", "send", "%s/reported-success-nothing-written" % what,
                            "%s reported success but nothing was written to connection #%d" % (what, ex["cid"]))
        if ex["route"] == "send/bin_update":
            hx = ex["body"]["binary_data"]
            if isinstance(hx, list):
                hx = "".join(hx).replace(" ", "")
            if grown.hex() != hx:
                raise Violation("C16", "send", "%s/wire-differs" % what, "bin_update %s was written as %s" % (hx[:80], grown.hex()[:80]))
            self.stats["faithful_bin_update"] += 1
            return
        frames, rest = rp.deframe(grown)
        if len(frames) != 1 or rest or frames[0].error or frames[0].type != rp.UPDATE:
            raise Violation("C16", "send", "%s/not-exactly-one-update" % what,
                            "%s reported success; the wire shows %s" % (what, rp.describe(grown)))
        body = ex["body"]
        if not isinstance(body, dict):
            raise Violation("C16", "send", "%s/non-object-request-put-a-message-on-the-wire" % what,
                            "%s with the body %r (not a JSON object: it requests nothing) reported success and wrote %s"
                            % (what, body, rp.describe(grown)))
        attr = dict(body.get("attr") or {})
        nlri = body.get("nlri") or []
        withdraw = body.get("withdraw") or []
        if attr and "5" not in attr and ex["ibgp"]:
            attr["5"] = 100
        if "14" in attr or "15" in attr:
            # opaque family: wire must equal a direct call of the codec in this session's mode
            from yabgp.message.update import Update
            # (the HTTP client serialises JSON objects with sorted keys: that is the order the view sees)
            direct = Update().construct({"attr": {int(k): attr[k] for k in sorted(attr)}, "nlri": nlri, "withdraw": withdraw},
                                        ex["as4"], False)
            if direct != grown:
                raise Violation("C16", "send", "%s/mp-wire-differs-from-codec" % what,
                                "MP UPDATE: wire %s, direct codec call %s" % (grown.hex()[:100], (direct or b"").hex()[:100]))
            self.stats["faithful_mp_update"] += 1
            return
        try:
            d = rp.decode_update(frames[0].body, ex["as4"])
        except ValueError as e:
            raise Violation("C16", "send", "%s/wire-malformed" % what, "UPDATE written for %s does not parse: %s (%s)" % (body, e, grown.hex()[:120]))
        want = {}
        if "1" in attr:
            want["origin"] = attr["1"]
        if "2" in attr:
            want["as_path"] = [(s[0], list(s[1])) for s in attr["2"]]
        if "3" in attr:
            want["next_hop"] = attr["3"]
        if "4" in attr:
            want["med"] = attr["4"]
        if "5" in attr:
            want["local_pref"] = attr["5"]
        if "6" in attr:
            want["atomic"] = True
        if "7" in attr:
            want["aggregator"] = (attr["7"][0], attr["7"][1])
        if "8" in attr:
            want["communities"] = [comm_to_int(c) for c in attr["8"]]
        if "16" in attr:
            exp16 = ext_comm_expected(attr["16"], ex["as4"])
            if exp16 is None:
                # a 4-octet AS administrator on a session without capability 65 (or a kind outside this model):
                # the API may refuse or send; not judged
                self.stats["ext_community_request_not_judged"] += 1
                return
            want.setdefault("other", []).append((16, 0xC0, exp16.hex()))
        got = dict(d["attrs"])
        if "as_path" in got:
            got["as_path"] = [(st, list(a)) for st, a in got["as_path"]]
        if not ex["as4"]:
            # 2-octet session: AS numbers above 65535 go out as AS_TRANS (RFC 6793)
            if "as_path" in want:
                want["as_path"] = [(st, [a if a <= 65535 else 23456 for a in asns]) for st, asns in want["as_path"]]
                got.pop("other", None) if False else None
            if "aggregator" in want and want["aggregator"][0] > 65535:
                want["aggregator"] = (23456, want["aggregator"][1])
            # AS4_PATH / AS4_AGGREGATOR may accompany them
            oth = [o for o in got.get("other", []) if o[0] not in (17, 18)]
            if oth:
                got["other"] = oth
            else:
                got.pop("other", None)
        problems = []
        if sorted(d["nlri"]) != sorted(nlri if attr else []):
            problems.append("nlri %s != requested %s" % (d["nlri"], nlri))
        if sorted(d["withdrawn"]) != sorted(withdraw):
            problems.append("withdrawn %s != requested %s" % (d["withdrawn"], withdraw))
        if got != want:
            problems.append("attributes %s != requested %s" % (got, want))
        if problems:
            key = "withdrawn" if "withdrawn" in problems[0] else ("nlri" if problems[0].startswith("nlri") else "attributes")
            raise Violation("C16", "send", "%s/wire-differs:%s" % (what, key),
                            "%s %s reported success; on the wire: %s" % (what, body, "; ".join(problems)))
        self.stats["faithful_update"] += 1
        if withdraw and attr:
            self.stats["faithful_update_with_attr_and_withdraw"] += 1

    def finish(self):
        pass


def diff(a, b):
    names = ["state", "timers", "connections", "protocol(ribs,versions,stats)", "capabilities", "allow_automatic_start",
             "hold_time", "protocol-object", "estab_protocol"]
    out = []
    for n, x, y in zip(names, a, b):
        if x != y:
            out.append("%s: %s -> %s" % (n, str(x)[:160], str(y)[:160]))
    return "; ".join(out)


class RestProfile(FsmProfile):
    id = "C16"
    runs = {"quick": 20000, "thorough": 600000}
    ctx_class = RestCtx
    rule = ("one run = C01-style prefix to some session state, then REST probes: every rule of app.url_map under /v1/peer/ x "
            "{GET,POST,HEAD,PUT,DELETE,PATCH,OPTIONS} x {no, wrong-user, wrong-password, empty, right credentials}, bodies from an "
            "UPDATE-dictionary generator (IPv4 NLRI/withdraw + ORIGIN, AS_PATH, NEXT_HOP, MED, LOCAL_PREF, ATOMIC_AGGREGATE, "
            "AGGREGATOR, COMMUNITIES; an IPv6 MP_REACH as opaque payload), route-refresh AFI/SAFI pairs and bin_update hex, "
            "interleaved with environment events; non-trivial = at least one send reported successful; distinct = cell sequence; 30 % of the requests carry an Accept header; credential shapes include user names with non-ASCII letters; 20 % of the route lists hold an aggregate and a more specific route of the same address")
    probes = ["rest_with_accept_header", "gen:same_address_two_prefix_lengths", "unauthenticated_probe", "unregistered_method_probe", "gated_probe_outside_established", "send_ok:send/update",
              "send_ok:send/route-refresh", "send_ok:send/bin_update", "faithful_update", "faithful_bin_update",
              "faithful_update_with_attr_and_withdraw", "faithful_mp_update", "send_refused"]

    def gen_config(self, rng, idx, tier):
        cfg = swarm_config(rng, idx)
        cfg["prefix_len"] = rng.pick([0, 2, 4, 6, 10, 20])
        cfg["max_ops"] = rng.pick([30, 50, 80])
        cfg["rib"] = rng.chance(0.3)
        cfg["two_sessions"] = rng.chance(0.12)
        if rng.chance(0.15):
            # the stock DefaultHandler is the application (it must not alter what the session layer keeps)
            cfg["handler"] = "default"
            cfg["write_disk"] = rng.chance(0.7)
            cfg["rotate_bytes"] = rng.pick([2000, 10 ** 9])
        if rng.chance(0.3):
            cfg["username"], cfg["password"] = rng.pick([("admin", "s3cret"), ("op", "admin"), ("root", ""), ("", "")])
        # bias towards established sessions: steer
        return cfg

    def new_ctx(self, cfg, tier):
        ctx = RestCtx(cfg, tier)
        return ctx


PROFILE = RestProfile()
