"""Profile `framing` (C04): one peer byte stream, delivered to fresh agents that differ only in
how the stream is cut into TCP segments.

Oracles: (a) differential -- handler callbacks with decoded payloads, bytes written, final
state and close decision are identical across the family; (b) reference -- they equal what
the RFC 4271 reference deframer plus the C01 profile model predict (frames before the first
framing violation processed in order, then NOTIFICATION(1,sub) + close, nothing after a close);
(c) every dataReceived call stays inside the step budget.
"""
import collections
import hashlib
import json

from sim import refpeer as rp
from sim import model as M
from sim.engine import Violation
from sim.world import World
from sim.profiles import base
from sim.profiles.base import BaseProfile
from sim.profiles.fsm import swarm_config

STATES = ["OpenSent", "OpenConfirm", "Established"]
CB_OF_TYPE = {rp.OPEN: "open_received", rp.KEEPALIVE: "keepalive_received",
              rp.NOTIFICATION: "notification_received", rp.ROUTE_REFRESH: "route_refresh_received",
              rp.CISCO_ROUTE_REFRESH: "route_refresh_received"}


def history_ops(cfg):
    """An earlier connection of the same process (cfg 'history'): a session in which a message was only partly
    received when the peer reset the connection. What follows starts on a new connection and a clean stream."""
    if cfg.get("history") == "prev_partial":
        part = (rp.encode_keepalive() + rp.encode_keepalive())[:19 + int(cfg.get("history_cut", 10))]
        return [["fire", 0], ["conn_ok", 0], ["send", 0, cfg["peer_open"], []], ["send", 0, part.hex(), []],
                ["pclose", 0, False]]
    return []


def reach_ops(cfg, state):
    ops = history_ops(cfg) + [["fire", 0], ["conn_ok", 0]]
    if state in ("OpenConfirm", "Established"):
        ops.append(["send", 0, cfg["peer_open"], []])
    if state == "Established":
        ops.append(["send", 0, rp.encode_keepalive().hex(), []])
    return ops


def semantic(f):
    """Is this well-framed frame a message whose meaning the reference model knows?"""
    try:
        if f.type == rp.OPEN:
            rp.decode_open(f.body)
            return True
        if f.type == rp.KEEPALIVE:
            return f.length == 19
        if f.type == rp.NOTIFICATION:
            return f.length >= 21
        if f.type in (rp.ROUTE_REFRESH, rp.CISCO_ROUTE_REFRESH):
            return f.length == 23
        if f.type == rp.UPDATE:
            rp.decode_update(f.body, False)
            return True
    except ValueError:
        return False
    return False


def short_join(items, sep):
    """Bounded rendering for signatures: long sequences keep their first three and last two items."""
    items = list(items)
    if len(items) > 8:
        items = items[:3] + ["..(%d).." % (len(items) - 5)] + items[-2:]
    return sep.join(items)


class Member(object):
    """One delivery of the stream to a fresh agent."""

    def __init__(self, cfg, state, stream, cuts, gap):
        if cfg.get("handler") == "default":
            from sim import simfs
            w = World(cfg, fs=simfs.SimFS())
        else:
            w = World(cfg)
        late = cfg.get("history") == "late_close"
        if late:
            # an earlier session that the agent closed itself (the peer sent a NOTIFICATION); the completion of that
            # close is still pending while the next session is set up and the stream arrives
            for op in [["fire", 0], ["conn_ok", 0], ["send", 0, cfg["peer_open"], []], ["send", 0, rp.encode_keepalive().hex(), []],
                       ["send", 0, rp.encode_notification(6, 4).hex(), []], ["fire", 0], ["conn_ok", 1]]:
                w.apply(op)
            if state in ("OpenConfirm", "Established"):
                w.apply(["send", 1, cfg["peer_open"], []])
            if state == "Established":
                w.apply(["send", 1, rp.encode_keepalive().hex(), []])
        else:
            for op in reach_ops(cfg, state):
                w.apply(op)
        for path in cfg.get("rest_before") or []:
            w.apply(["rest", "GET", base.URL + path, "ok"])     # a monitoring system has read the state / the counters
        self.reached = w.state()
        if cfg.get("hqueue"):
            w.apply(["hqueue"] + list(cfg["hqueue"]))       # the application has a message queued for the peer
        if cfg.get("hfail_at"):
            w.apply(["hfail", cfg["hfail_at"]])              # its n-th callback from now raises ENOSPC
        self.pos = len(w.log)
        self.w = w
        live = w.live_conns()
        c = live[-1] if (late and live) else w.conn(0)
        self.cid = c.cid if c is not None else None
        self.w0 = len(c.written) if c is not None else 0

        def k():
            for i, x in enumerate(w.live_conns()):
                if x.cid == self.cid:
                    return i
            return 0
        w.apply(["pw", k(), stream.hex()])
        last = 0
        first = True
        for cut in sorted(set(cuts)) + [len(stream)]:
            if cut <= last or cut > len(stream):
                continue
            if not first and gap:
                w.apply(["advance", gap])
            w.apply(["deliver", k(), cut - last])
            if first and late:
                for i, x in enumerate(w.live_conns()):
                    if x.cid != self.cid and x.closing():
                        w.apply(["cdone", i])
                        break
            first = False
            last = cut

    def summary(self):
        w = self.w
        cbs = []
        escapes = []
        lose = 0
        for e in w.log[self.pos:]:
            if e[2] == "h" and e[3] not in ("on_connection_lost",):
                cbs.append(list(e[3:]))
            elif e[2] in ("exc", "budget", "exit"):
                escapes.append(list(e[2:4]))
            elif e[2] == "lose":
                lose += 1
        c = w.conns[self.cid] if self.cid is not None else None
        written = c.written[self.w0:].hex() if c is not None else ""
        return {"callbacks": cbs, "written": written, "state": w.state(), "lose": lose,
                "escapes": escapes}


class FramingCtx(object):
    prop = "C04"

    def __init__(self, cfg, tier):
        self.cfg = cfg
        self.tier = tier
        self.stats = collections.Counter()
        self.cells = set()
        self.trace = []
        self.nontrivial = False
        self.emitted = False
        self._digest = hashlib.sha256()
        self._sim = 0.0
        self._nops = 0
        self._nskip = 0

    # ---- engine interface
    def trace_hash(self):
        return hashlib.sha256(json.dumps(self.trace).encode()).hexdigest()[:16]

    def digest(self):
        return self._digest.hexdigest()

    def sim_time(self):
        return self._sim

    def nops(self):
        return self._nops

    def nskipped(self):
        return self._nskip

    def finish(self):
        pass

    # ---- generation
    def gen_frame(self, rng, state):
        cfg = self.cfg
        kind = rng.weighted([("keepalive", 3), ("update", 3), ("rr", 1), ("notif", 1), ("open", 1),
                             ("bad_len", 2), ("bad_type", 2), ("bad_marker", 2), ("opaque", 1)])
        as4 = cfg["four_bytes_as"] or cfg["local_as"] > 65535
        if kind == "keepalive":
            return rp.encode_keepalive()
        if kind == "update":
            return base.gen_update(rng, cfg, as4)
        if kind == "rr":
            return base.gen_rr(rng)
        if kind == "notif":
            return base.gen_notif(rng)
        if kind == "open":
            if rng.chance(0.25):
                # an OPEN with unusual capability contents (ADD-PATH / MP entries for families yabgp has no name
                # for, odd lengths): framing and termination must not depend on what the body says
                from sim.profiles import hostile
                return rp.frame(rp.OPEN, hostile.structured_open(rng, cfg))
            return base.gen_open(rng, cfg, rng.pick(["valid", "valid", "badas", "hold1", "badver"]))
        if kind == "bad_len":
            return base.gen_bad_len(rng)
        if kind == "bad_type":
            return base.gen_bad_type(rng)
        if kind == "bad_marker":
            return base.gen_bad_marker(rng)
        # well-framed frame with an arbitrary body
        n = rng.pick([0, 1, 4, 10, 23, 60])
        return rp.frame(rng.pick([1, 2, 3, 4, 5, 128]), bytes(rng.randrange(256) for _ in range(n)))

    def choose(self, rng):
        if self.emitted:
            return None
        self.emitted = True
        cfg = self.cfg
        state = rng.pick(STATES)
        mode = cfg.get("mode", "random")
        if mode != "random":
            state = cfg["sweep_state"]
        if mode == "sweep_len":
            length = cfg["sweep_value"]
            mtype = rng.pick([1, 2, 3, 4, 5])
            if 4090 <= length <= 4100 or 19 <= length <= 30:
                # around the boundaries of the header rule use a type that has no narrower rule of its own
                mtype = rp.UPDATE if length >= 23 else rng.pick([1, 2, 3, 4, 5])
            body = bytes(rng.randrange(256) for _ in range(rng.pick([0, 4, 10])))
            stream = rp.frame(mtype, body, length=length)
            if rng.chance(0.5):
                stream = rp.encode_keepalive() + stream
            if rng.chance(0.5):
                stream += rp.encode_keepalive()
        elif mode == "sweep_type":
            stream = rp.frame(cfg["sweep_value"], bytes(rng.pick([0, 0, 4])))
            if rng.chance(0.5):
                stream = rp.encode_keepalive() + stream
            if rng.chance(0.5):
                stream += rp.encode_keepalive()
        elif mode == "random" and rng.chance(0.08):
            # long valid stream (> 4096 octets in flight): many messages per segment, or a maximum-size
            # message followed by more
            state = "Established"
            as4 = False
            parts = []
            if rng.chance(0.4):
                pfx = ["10.%d.%d.0/24" % (i // 256, i % 256) for i in range(1015)]
                attrs = {"origin": 0, "as_path": [(2, [cfg["remote_as"] & 0xFFFF or 1])], "next_hop": "10.0.0.2"}
                big = rp.encode_update([], attrs, pfx, as4=False)
                limit = rng.pick([4096, 4096, 4095])
                while len(big) > limit:
                    pfx.pop()
                    big = rp.encode_update([], attrs, pfx, as4=False)
                # fill up to the limit exactly (a /24 takes 4 octets, a /16 3, a /8 2, the default route 1)
                fill = {1: ["0.0.0.0/0"], 2: ["11.0.0.0/8"], 3: ["11.1.0.0/16"]}.get(limit - len(big))
                if fill:
                    big = rp.encode_update([], attrs, pfx + fill, as4=False)
                self.stats["gen:max_size_message(%d)" % len(big)] += 1
                parts.append(big)
                parts.append(rp.encode_keepalive())
            if not parts and rng.chance(0.3):
                # a frame whose length field exceeds 4096 and whose octets are ALL there (one segment, or cut inside
                # the header): Bad Message Length whatever has arrived behind the header
                L = rng.pick([4097, 4100, 4200, 5000])
                parts.append(rp.encode_keepalive())
                parts.append(rp.frame(rp.UPDATE, bytes(rng.randrange(256) for _ in range(L - 19)), length=L))
                self.stats["gen:complete_oversized_frame"] += 1
            total = sum(len(x) for x in parts)
            target = rng.pick([4200, 5000, 9000])
            while total < target:
                m = rng.pick([rp.encode_keepalive(), rp.encode_keepalive(), base.gen_update(rng, cfg, as4), base.gen_rr(rng)])
                parts.append(m)
                total += len(m)
            stream = b"".join(parts)
            n = len(stream)
            segs = [[], [n // 2], [n // 3, 2 * n // 3], list(range(1000, n, 1000)), list(range(64, n, 64)), [19 + 5], [19 + 18], [19 + 19]]
            for _ in range(3):
                segs.append(sorted(rng.sample(range(1, n), rng.randrange(1, 6))))
            self.stats["gen:long_streams(>4096)"] += 1
            return ["family", state, stream.hex(), segs, 0]
        else:
            nframes = rng.randrange(1, 7)
            fl = [self.gen_frame(rng, state) for _ in range(nframes)]
            if rng.chance(0.2):
                # the peer repeats itself (a table re-sent after a route refresh): the same good UPDATE twice
                u = base.gen_update(rng, cfg, False)
                i = rng.randrange(len(fl) + 1)
                fl.insert(i, u)
                fl.insert(rng.randrange(i + 1, len(fl) + 1), u)
                self.stats["gen:repeated_update"] += 1
            stream = b"".join(fl)
            r = rng.random()
            if r < 0.15 and len(stream) > 1:
                stream = stream[:rng.randrange(1, len(stream))]          # truncated tail
            elif r < 0.3:
                stream += bytes(rng.randrange(256) for _ in range(rng.randrange(1, 30)))   # trailing garbage
        n = len(stream)
        segs = [[]]                                             # whole
        segs.append(list(range(1, n)))                          # byte at a time
        if mode != "random":
            for i in sorted(set([rng.randrange(1, n), 16, 18, 19, n - 1])):
                if 0 < i < n:
                    segs.append([i])
            return ["family", state, stream.hex(), segs, 0]
        thorough = self.tier == "thorough"
        if thorough and n <= 400:
            segs.extend([[i] for i in range(1, n)])             # every 1-cut
        else:
            for _ in range(6):
                if n > 1:
                    segs.append([rng.randrange(1, n)])
        if thorough and n <= 64:
            segs.extend([[i, j] for i in range(1, n) for j in range(i + 1, n)])   # every 2-cut
        else:
            for _ in range(6):
                if n > 2:
                    segs.append(sorted(rng.sample(range(1, n), 2)))
        # cuts inside the first header and around frame boundaries
        frames, _ = rp.deframe(stream)
        bounds = [f.offset for f in frames if f.offset > 0]
        for b in bounds[:4]:
            for d in (-1, 0, 1, 16, 18, 19):
                if 0 < b + d < n:
                    segs.append([b + d])
        for i in (1, 15, 16, 17, 18, 19, 20):
            if i < n:
                segs.append([i])
        for _ in range(3):
            k = rng.randrange(1, 8)
            if n > k:
                segs.append(sorted(rng.sample(range(1, n), k)))
        gap = rng.pick([0, 0, 0.001, 0.01])
        return ["family", state, stream.hex(), segs, gap]

    # ---- execution
    def step(self, op):
        if op[0] != "family":
            return
        _, state, stream_hex, segs, gap = op
        stream = bytes.fromhex(stream_hex)
        cfg = self.cfg
        members = []
        for cuts in segs:
            m = Member(cfg, state, stream, cuts, gap)
            self._digest.update(m.w.digest().encode())
            self._sim += m.w.now()
            self._nops += m.w.ops_done
            self._nskip += m.w.ops_skipped
            members.append((cuts, m, m.summary()))
            self.stats["members"] += 1
        self.stats["families"] += 1
        self.stats["segments_delivered"] += sum(len(set(c)) + 1 for c, _, _ in members)
        base_cuts, base_m, base_s = members[0]
        frames, rest = rp.deframe(stream, strict=True)
        kinds = []
        for f in frames:
            kinds.append(base.classify_frame(f)[0] if not f.error else "bad_" + f.error[0])
        cell = "%s/%s" % (state, short_join(kinds, "+") if kinds else "partial")
        self.cells.add("%s/%s" % (state, kinds[-1] if kinds else "partial"))
        self.trace.append([state, kinds, len(rest) > 0])
        self.nontrivial = base_m.reached == {"OpenSent": "OPENSENT", "OpenConfirm": "OPENCONFIRM",
                                              "Established": "ESTABLISHED"}[state]
        if not self.nontrivial:
            self.stats["prefix_did_not_reach_state"] += 1
            return
        for f in frames:
            self.stats["frame:" + ("bad_" + f.error[0] if f.error else rp.TYPE_NAMES[f.type])] += 1
        if rest:
            self.stats["stream_with_partial_tail"] += 1
        if gap:
            self.stats["delayed_segments"] += 1
        # (c) budget / escapes in any member
        for cuts, m, s in members:
            if s["escapes"]:
                what = s["escapes"][0]
                raise Violation("C04", "bounded", "%s/%s/%s" % (state, kinds[-1] if kinds else "partial", what[0]),
                                "%s in %s while receiving %s cut at %s" % (what[0], what[1], stream_hex[:80], cuts[:6]))
        # (a) differential across segmentations
        for cuts, m, s in members[1:]:
            if s != base_s:
                diff = [k for k in sorted(s) if s[k] != base_s[k]]
                raise Violation("C04", "differential", "%s/%s/differs:%s" % (state, kinds[-1] if kinds else "partial", "+".join(diff)),
                                "stream %s in %s: delivered whole -> %s ; cut at %s -> %s"
                                % (stream_hex[:120], state, brief(base_s), cuts[:8], brief(s)),
                                {"whole": base_s, "cut": s, "cuts": cuts})
        def unusual_open(f):
            if f.error or f.type != rp.OPEN:
                return False
            b = f.body
            if len(b) < 10 or b[9] == 0 or 10 + b[9] != len(b):
                return True
            i = 10
            while i < len(b):                      # optional parameters: only well-formed capability parameters
                if i + 2 > len(b) or b[i] != 2 or i + 2 + b[i + 1] > len(b):
                    return True
                j, end = i + 2, i + 2 + b[i + 1]
                while j < end:                     # capabilities: only the everyday ones, exactly filling the parameter
                    if j + 2 > end or j + 2 + b[j + 1] > end or b[j] not in (1, 2, 64, 65, 70, 128):
                        return True
                    if {2: 0, 128: 0, 70: 0, 65: 4, 1: 4}.get(b[j], b[j + 1]) != b[j + 1]:
                        return True
                    if b[j] == 1 and (b[j + 1] != 4 or (int.from_bytes(b[j + 2:j + 4], "big"), b[j + 5]) not in
                                      [(1, 1), (2, 1), (1, 128), (2, 128), (1, 133), (25, 70), (16388, 71), (1, 4), (1, 73)]):
                        return True
                    j += 2 + b[j + 1]
                i = end
            return False
        if any(unusual_open(f) for f in frames):
            # OPENs with unusual capability contents (or none at all): yabgp's reading of them is C05/C14 matter;
            # here only termination and independence of the segmentation are judged
            self.stats["families_with_unusual_open(differential_only)"] += 1
            return
        if cfg.get("hqueue") or cfg.get("hfail_at"):
            # with an application-side fault or queued message the reaction is not the reference model's
            # business: termination and independence of the segmentation were checked above
            self.stats["families_with_application_fault_or_queue(differential_only)"] += 1
            return
        # (b) reference: deframer + C01 model on the whole-chunk member.  An unknown type octet in a
        # frame whose body has not fully arrived may be rejected at once or when the frame is complete.
        frames_late, _ = rp.deframe(stream, early_type=False, strict=True)
        if [f.error for f in frames_late] != [f.error for f in frames]:
            self.stats["bad_type_or_length_with_partial_body(two_allowed_readings)"] += 1
            try:
                self.reference_check(state, stream, frames_late, base_m, base_s, cell)
                return
            except Violation:
                pass
        self.reference_check(state, stream, frames, base_m, base_s, cell)

    def reference_check(self, state, stream, frames, mem, s, cell):
        cfg = self.cfg
        model = M.Model(cfg)
        # bring the model to the state by the same prefix
        model = model.alternatives(("fire",), float(cfg["call_later"]))[1][1]
        t = float(cfg["call_later"])
        model = model.alternatives(("conn_ok", 0), t)[0][1]
        if state in ("OpenConfirm", "Established"):
            fr = rp.deframe(bytes.fromhex(cfg["peer_open"]))[0][0]
            info = base.classify_open(fr.body)
            model = model.alternatives(("msg", 0, "open", info), t)[0][1]
        if state == "Established":
            model = model.alternatives(("msg", 0, "keepalive", None), t)[0][1]
        # observed tokens of the member
        toks = []
        off = 0
        written = bytes.fromhex(s["written"])
        try:
            wframes = rp.split_frames_loose(written)
        except ValueError as e:
            raise Violation("C04", "tx-framing", "%s/agent-wrote-non-frame" % state, str(e))
        # interleave 'lose' at the right place: take order from the log
        toks = []
        w = mem.w
        widx = 0
        cbs = []
        for e in w.log[mem.pos:]:
            if e[2] == "write" and e[3] == mem.cid:
                for f in rp.deframe(bytes.fromhex(e[4]))[0]:
                    toks.append(("tx", 0, base.BaseCtx.tx_token(f)))     # (the model calls the observed connection #0)
            elif e[2] == "lose":
                toks.append(("lose", 0 if e[3] == mem.cid else e[3] + 1000))
            elif e[2] == "h" and e[3] == "on_established":
                toks.append(("estab",))
        toks = base.normalise_close_order(toks)
        # events: frames up to the first opaque one
        evs = []
        known = []
        for f in frames:
            if not f.error and not semantic_known(f):
                break
            k, info, label = base.classify_frame(f)
            evs.append(("msg", 0, k, info))
            known.append(f)
        if len(evs) != len(frames):
            self.stats["reference_partial(opaque_body)"] += 1
            # only the prefix of outputs can be predicted; compare prefix-wise
            m2 = prefix_match(model, evs, toks, t)
            if m2 is None:
                raise Violation("C04", "reference", "%s/prefix-mismatch" % cell,
                                "in %s the frames before the first opaque body should give %s; agent did %s"
                                % (state, M.describe_expected(model, evs, t), toks))
            return
        res = M.match_events_path(model, evs, toks, t)
        if res is None:
            exp = M.describe_expected(model, evs, t)
            raise Violation("C04", "reference", "%s/got:%s" % (cell, short_join([abs_tok(x) for x in toks], ",") or "nothing"),
                            "stream %s in %s: reference deframer extracts %s; expected reaction %s; agent did %s"
                            % (stream.hex()[:120], state, [repr(f) for f in frames],
                               " then ".join(" | ".join("[" + ",".join(a) + "]" for a in e["allowed"]) for e in exp),
                               [abs_tok(x) for x in toks]))
        self.stats["reference_full"] += 1
        self.callback_check(state, frames, s, res[1], cell)

    def callback_check(self, state, frames, s, path, cell):
        """No message lost, duplicated or merged: while the session lives each valid frame gives
        exactly one callback of its type, in order; the frame on which the agent closes may or may
        not be reported; after it there is none."""
        cbs = [c[0] for c in s["callbacks"] if c[0] != "on_established"]
        expect_exact = []
        optional_last = None
        for f, pat in zip(frames, path):
            if f.error:
                if f.error[0] == "length" and f.type in CB_OF_TYPE and 19 <= f.length <= 4096:
                    # a KEEPALIVE / OPEN of illegal length may be reported before its length is judged
                    optional_last = CB_OF_TYPE[f.type]
                break
            name = CB_OF_TYPE.get(f.type, ("update_received", "on_update_error"))
            if any(tok[0] == "lose" for tok in pat):
                optional_last = name
                break
            expect_exact.append(name)

        def ok(name, want):
            return name in want if isinstance(want, tuple) else name == want
        n = len(expect_exact)
        good = len(cbs) >= n and all(ok(cbs[i], expect_exact[i]) for i in range(n))
        if good:
            tail = cbs[n:]
            if len(tail) > 1 or (len(tail) == 1 and (optional_last is None or not ok(tail[0], optional_last))):
                good = False
        if not good:
            raise Violation("C04", "callbacks", "%s/expected:%s/got:%s" % (cell, n, short_join(cbs, ",") or "none"),
                            "in %s frames %s should be reported as %s (+ optionally %s for the closing frame); handler saw %s"
                            % (state, [repr(f) for f in frames], expect_exact, optional_last, cbs))


def semantic_known(f):
    return semantic(f)


def prefix_match(model, evs, toks, now):
    """evs' expected outputs must be a prefix of toks."""
    def rec(m, i, pos):
        if i == len(evs):
            return m
        for pat, m2 in m.alternatives(evs[i], now):
            n = len(pat)
            if pos + n <= len(toks) and all(M.tok_match(pat[j], toks[pos + j]) for j in range(n)):
                r = rec(m2, i + 1, pos + n)
                if r is not None:
                    return r
        return None
    return rec(model, 0, 0)


def abs_tok(t):
    if t[0] == "tx":
        if isinstance(t[2], tuple):
            return "NOTIF(%d,%d)" % (t[2][1], t[2][2])
        return t[2]
    return t[0]


def brief(s):
    return "callbacks=%s written=%s state=%s lose=%d" % ([c[0] for c in s["callbacks"]],
                                                        rp.describe(bytes.fromhex(s["written"])), s["state"], s["lose"])


class FramingProfile(BaseProfile):
    id = "C04"
    runs_random = {"quick": 6000, "thorough": 12000}
    runs = {"quick": 6000 + 24 * 3 + 256, "thorough": 12000 + 65536 * 3 + 256 * 3}
    rule = ("one run = one peer byte stream (1-6 valid/invalid frames, optional truncated tail or trailing garbage) placed in "
            "OpenSent/OpenConfirm/Established and delivered to a FAMILY of fresh agents that differ only in segmentation "
            "(whole, byte-at-a-time, 1-cuts, 2-cuts, header/boundary-biased, random multi-cuts; optional delay between "
            "segments; 30 % of the agents run with the RIB on, 20 % of the streams repeat a good UPDATE, 12 % of the families have an application handler that raises ENOSPC at its 1st-4th callback and 12 % an application message queued for the peer - these are judged for termination and independence of the segmentation only); thorough adds every 1-cut (streams <= 400 B), every 2-cut (<= 64 B) and the full sweep of the "
            "length field 0..65535 and the type octet 0..255; non-trivial = the prefix reached the intended state; "
            "distinct = distinct (state, frame-kind sequence, partial-tail) triple")
    probes = ["gen:repeated_update", "families_with_application_fault_or_queue(differential_only)", "gen:long_streams(>4096)", "frame:bad_marker", "frame:bad_length", "frame:bad_type", "frame:UPDATE", "frame:OPEN", "frame:KEEPALIVE",
              "frame:NOTIFICATION", "frame:ROUTE-REFRESH", "stream_with_partial_tail", "delayed_segments", "reference_full"]

    def gen_config(self, rng, idx, tier):
        cfg = swarm_config(rng, idx)
        cfg["call_later"] = 0
        cfg["peer_open"] = base.gen_open(rng, cfg, "valid", hold=rng.pick([0, 3, 30, 90, 180])).hex()
        cfg["mode"] = "random"
        cfg["rib"] = rng.chance(0.3)
        if rng.chance(0.15):
            # the stock DefaultHandler is the application
            cfg["handler"] = "default"
            cfg["write_disk"] = rng.chance(0.7)
            cfg["rotate_bytes"] = 10 ** 9
            if rng.chance(0.5):
                # IPv6 peering, the peer's address written with capital hex digits; the message file rotates early
                cfg["local_addr"], cfg["remote_addr"] = "2001:db8::1", "2001:DB8::2"
                cfg["write_disk"] = True
                cfg["rotate_bytes"] = rng.pick([0, 200, 1000])
        if rng.chance(0.15):
            cfg["history"] = rng.pick(["prev_partial", "late_close"])
            cfg["history_cut"] = rng.pick([1, 10, 18])
            cfg["idle_hold_time"] = rng.pick([1, 30])
        if rng.chance(0.15):
            cfg["rest_before"] = [rng.pick(["statistic", "state", "statistic"]) for _ in range(rng.randrange(1, 3))]
        cfg["hfail_at"] = rng.pick([1, 2, 3, 4]) if rng.chance(0.12) else None
        cfg["hqueue"] = [rng.pick(["update", "update", "notification"]), rng.randrange(1, 9)] if rng.chance(0.12) else None
        n_random = self.runs_random[tier]
        if idx >= n_random:
            # the rest of the index space is the exhaustive sweep of the length field and type octet
            j = idx - n_random
            if tier == "thorough":
                if j < 65536 * 3:
                    cfg["mode"], cfg["sweep_value"], cfg["sweep_state"] = "sweep_len", j % 65536, STATES[j // 65536]
                else:
                    j -= 65536 * 3
                    cfg["mode"], cfg["sweep_value"], cfg["sweep_state"] = "sweep_type", j % 256, STATES[(j // 256) % 3]
            else:
                # quick: boundary values of the length field and every type octet once
                lens = [0, 1, 2, 17, 18, 19, 20, 21, 22, 23, 28, 29, 30, 255, 256, 4095, 4096, 4097, 4098, 8191, 32767, 32768, 65534, 65535]
                if j < len(lens) * 3:
                    cfg["mode"], cfg["sweep_value"], cfg["sweep_state"] = "sweep_len", lens[j % len(lens)], STATES[j // len(lens)]
                else:
                    j -= len(lens) * 3
                    cfg["mode"], cfg["sweep_value"], cfg["sweep_state"] = "sweep_type", j % 256, STATES[(j // 256) % 3]
        return cfg

    def new_ctx(self, cfg, tier):
        return FramingCtx(cfg, tier)

    def default_config(self):
        d = dict(base.DEFAULT_CFG)
        return d

    def simplify_op(self, op):
        """Shrink a family: fewer segmentations, then fewer frames."""
        if op[0] != "family":
            return []
        _, state, stream_hex, segs, gap = op
        out = []
        if len(segs) > 2:
            for s in segs[1:]:
                out.append(["family", state, stream_hex, [segs[0], s], gap])
            out.append(["family", state, stream_hex, [segs[0]], gap])
        if gap:
            out.append(["family", state, stream_hex, segs, 0])
        stream = bytes.fromhex(stream_hex)
        frames, rest = rp.deframe(stream)
        if len(frames) > 1 and len(segs) <= 2:
            for i in range(len(frames)):
                if frames[i].error:
                    continue
                s2 = b"".join(f.raw for j, f in enumerate(frames) if j != i) + rest
                cuts = [[c for c in cs if c < len(s2)] for cs in segs]
                out.append(["family", state, s2.hex(), cuts, gap])
        return out


PROFILE = FramingProfile()
