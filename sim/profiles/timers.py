"""Profile `timers` (C03): hold and keepalive timers keep exactly the negotiated contract.

Workload: configured x proposed hold time from {0,3,4,9,30,90,180,65535}^2, then a peer arrival
schedule of KEEPALIVE/UPDATE gaps drawn from {H-e, H, H+e, H/3, 0 (burst), long silence};
same-instant ties between a timer expiry and an arrival are resolved explicitly in both orders.
Oracle: checks over the timestamped history, independent of the C01 model.
"""
from sim import refpeer as rp
from sim.engine import Violation
from sim.profiles import base
from sim.profiles.base import BaseProfile, BaseCtx

HOLDS = [0, 3, 4, 9, 30, 90, 180, 65535]
EPS = 1e-6
LARGE = 240.0


class TimersCtx(BaseCtx):
    escape_is_violation = False
    prop = "C03"
    exceptions_end_run = False    # an exception escaping from a callback is logged by the reactor; the timers' contract stays

    def __init__(self, cfg, tier):
        BaseCtx.__init__(self, cfg, tier)
        self.H = min(cfg["hold_time"], cfg["peer_hold"])
        self.phase = "boot"           # boot, connect, opensent, openconfirm, established, ended
        self.t_open_sent = None
        self.deadline = None          # exact instant the hold timer must expire
        self.last_ka_tx = None
        self.next_arrival = None
        self.arrivals_left = cfg["n_arrivals"]
        self.end_at = None
        self.expired = False
        self.cid = None
        self.plan = cfg["variant"]    # 'silence' | 'session'
        self.kc_wait = None
        # optional earlier session (negotiating another hold time) that the peer drops: the contract of
        # the session under observation is the one negotiated by the OPENs exchanged in THAT session
        self.prelude = []
        if cfg.get("peer_open0"):
            if cfg.get("prelude_late_close"):
                # the earlier session is ended by the agent (peer NOTIFICATION); the completion of that close
                # is held back until the session under observation is up
                end = ["send", 0, rp.encode_notification(6, 4).hex(), []]
            else:
                end = ["pclose", 0, bool(cfg.get("prelude_clean", True))]
            self.prelude = [["fire", 0], ["conn_ok", 0], ["send", 0, cfg["peer_open0"], []],
                            ["send", 0, rp.encode_keepalive().hex(), []], end]
        if cfg.get("prelude_opensent_drop") is not None and not self.prelude:
            # an earlier connection on which the peer never sent its OPEN and which it dropped after d seconds
            self.prelude = [["fire", 0], ["conn_ok", 0], ["advance", cfg["prelude_opensent_drop"]], ["pclose", 0, bool(cfg.get("prelude_clean", True))]]
        # an earlier connection that the agent's own hold timer ended: in OpenSent (the peer never sent its OPEN,
        # 240 s) or later, with the hold time negotiated by peer_open_x (the peer goes silent after its first
        # KEEPALIVE). Its ops are chosen from the state; it ends with the completion of the agent's close.
        self.prelude_dyn = cfg.get("prelude_hold_expiry") if not self.prelude else None
        self.dyn_stage = 0
        self.in_prelude = bool(self.prelude) or bool(self.prelude_dyn)
        self.prelude_left = len(self.prelude)      # counted in step(), so that replay needs no choose()
        self.prelude_sent = 0

    # ------------------------------------------------------------------ generation
    def gap(self, rng):
        H = self.H
        if H == 0:
            return rng.pick([0.0, 1.0, 60.0, 240.0, 241.0, 1000.0, 2400.0])
        e = rng.pick([0.001, 0.01, H / 100.0])
        return rng.weighted([(H - e, 3), (float(H), 3), (H + e, 2), (H / 3.0, 2), (0.0, 1),
                             (H / 2.0, 1), (H / 3.0 - e, 1), (3.0 * H, 0.5), (2.0 * H / 3.0, 1)])

    def choose(self, rng):
        w = self.world
        if self.done or w.exited or w.ops_done + w.ops_skipped >= self.cfg["max_ops"]:
            return None
        if self.prelude_sent < len(self.prelude):
            self.prelude_sent += 1
            return self.prelude[self.prelude_sent - 1]
        if self.prelude_dyn and self.dyn_stage < 9:
            live = w.live_conns()
            if live and live[0].closing():
                self.dyn_stage = 9
                return ["cdone", 0]
            if live and live[0].state == "connecting":
                return ["conn_ok", 0]
            if live and self.prelude_dyn == "established" and self.dyn_stage < 2:
                self.dyn_stage += 1
                return ["send", 0, self.cfg["peer_open_x"] if self.dyn_stage == 1 else rp.encode_keepalive().hex(), []]
            if not w.reactor.due():
                return None
            return ["fire", 0]
        if self.phase == "boot":
            if not w.reactor.due():
                return None
            return ["fire", 0]
        if self.phase == "connect":
            for i, c in enumerate(w.live_conns()):
                if c.state == "connecting":
                    return ["conn_ok", i]
            return ["conn_ok", 0]
        if self.phase == "ended":
            # let a little more time pass: nothing may be written after the close
            if self.end_at is None:
                self.end_at = w.now() + 5.0
            for k, c in enumerate(w.live_conns()):
                if c.closing():
                    return ["cdone", k]
            return None
        if self.phase == "opensent":
            if self.plan == "silence" or self.next_arrival is None:
                if self.plan == "silence":
                    self.next_arrival = float("inf")
                else:
                    self.next_arrival = w.now() + rng.pick([0.0, 0.0, 1.0, 239.999, 240.0, 240.001])
        if self.phase == "established" and self.cfg.get("prelude_late_close") and not getattr(self, "late_done", False):
            self.late_done = True
            for i, c in enumerate(w.live_conns()):
                if c.closing():
                    self.stats["gen:late_close_of_earlier_connection"] += 1
                    return ["cdone", i]
        if self.phase in ("openconfirm", "established") and self.next_arrival is None:
            if self.arrivals_left <= 0:
                # final long silence
                self.next_arrival = float("inf")
                self.end_at = w.now() + (3.0 * self.H + 1.0 if self.H else 10 * LARGE)
            else:
                self.arrivals_left -= 1
                self.next_arrival = w.now() + self.gap(rng)
        na = self.next_arrival
        if self.end_at is not None and w.now() >= self.end_at - EPS:
            return None
        nt = w.reactor.next_time()
        horizon = na if na != float("inf") else self.end_at
        if horizon is None:
            horizon = w.now() + LARGE + 10
        if nt is not None and (nt < horizon - EPS):
            due = w.reactor.due()
            return ["fire", rng.randrange(len(due))]
        if nt is not None and abs(nt - horizon) <= EPS and na != float("inf"):
            # a timer and the arrival fall on the same instant: both orders are explored
            self.stats["gen:tie_timer_vs_arrival"] += 1
            if w.now() < nt - EPS:
                return ["advance", nt - w.now()]
            if rng.chance(0.5):
                return ["fire", rng.randrange(len(w.reactor.due()))]
            return self.arrival_op(rng)
        if w.now() < horizon - EPS:
            return ["advance", horizon - w.now()]
        if na == float("inf"):
            return None
        return self.arrival_op(rng)

    def arrival_op(self, rng):
        self.next_arrival = None
        if self.phase == "opensent":
            return ["send", self.k(), self.cfg["peer_open"], []]
        if self.phase == "openconfirm":
            if self.cfg.get("second_open") and not getattr(self, "second_open_sent", False):
                # a further valid OPEN (other hold time) before the KEEPALIVE: if the agent ignores it,
                # the contract negotiated by the first one stays in force
                self.second_open_sent = True
                self.next_arrival = self.world.now() + rng.pick([0.0, 0.5])
                return ["send", self.k(), self.cfg["second_open"], []]
            if self.cfg.get("hfail_established") and getattr(self, "gen_hfails", 0) < self.cfg["hfail_established"] \
                    and self.world.handler_fail_in is None:
                # the application raises when it is told that the session is established (its event bus is
                # down): the KEEPALIVE still is a KEEPALIVE for the hold timer
                self.gen_hfails = getattr(self, "gen_hfails", 0) + 1
                self.next_arrival = self.world.now()
                return ["hfail", 1]
            return ["send", self.k(), rp.encode_keepalive().hex(), []]
        if getattr(self, "gen_partial_rest", None):
            # the rest of the frame whose first octets were delivered earlier
            rest, self.gen_partial_rest = self.gen_partial_rest, None
            return ["send", self.k(), rest.hex(), []]
        if self.cfg.get("partial_frames") and rng.chance(0.25):
            # only the first octets of a message arrive now (TCP segmentation): not a message yet
            msg = rp.encode_keepalive() if rng.chance(0.6) else base.gen_update(rng, self.cfg, False)
            cut = rng.randrange(1, len(msg))
            head = b""
            if rng.chance(0.3):
                # a complete small message - an arrival - and, in the same segment, most of a maximum-size
                # UPDATE whose last octets come later (the peer stalls in mid-write)
                head = rp.encode_keepalive() if rng.chance(0.3) else base.gen_update(rng, self.cfg, False)
                msg = base.max_size_update()
                cut = rng.pick([4095, 4090, 4077, len(msg) - len(head), rng.randrange(19, len(msg))])
                self.stats["gen:message_plus_most_of_a_big_one"] += 1
            self.gen_partial_rest = msg[cut:]
            self.stats["gen:partial_frame_arrival"] += 1
            return ["send", self.k(), (head + msg[:cut]).hex(), []]
        if self.cfg.get("clock_steps") and getattr(self, "gen_steps", 0) < self.cfg["clock_steps"] and rng.chance(0.3):
            # the wall clock is stepped (the reactor's time base is monotonic): the timers' contract is unchanged
            self.gen_steps = getattr(self, "gen_steps", 0) + 1
            self.next_arrival = self.world.now() + rng.pick([0.0, 0.5])
            return ["clockstep", rng.pick([-86400.0, -3600.0, -30.0, -2.0, 5.0, 3600.0])]
        if self.cfg.get("rr_arrivals") and rng.chance(0.2):
            # a ROUTE-REFRESH (any subtype, either code point) is not an arrival for the hold timer, and the
            # messages after it are
            if rng.chance(0.6):
                self.next_arrival = self.world.now() + rng.pick([0.0, 0.5])
            # (else: the ROUTE-REFRESH is the last thing the peer says before the next gap or the final silence)
            self.stats["gen:route_refresh_arrival"] += 1
            return ["send", self.k(), base.gen_rr(rng).hex(), []]
        if self.cfg.get("malformed_updates") and rng.chance(0.3):
            # a well-framed UPDATE whose body is malformed: still an UPDATE for the hold timer
            from sim.profiles import hostile
            body = hostile.structured_update(rng, self.cfg)
            if rng.chance(0.5):
                body = hostile.mutate(rng, body)
            self.stats["gen:malformed_update_arrival"] += 1
            return ["send", self.k(), rp.frame(rp.UPDATE, body[:4000] if len(body) >= 4 else body + bytes(4)).hex(), []]
        if self.cfg.get("rest_reads") and rng.chance(0.25):
            # a monitoring system reads the statistics / the state over REST: no arrival, nothing changes
            self.next_arrival = self.world.now() + rng.pick([0.0, 0.5, self.H / 6.0 if self.H else 1.0])
            self.stats["gen:rest_read_in_session"] += 1
            return ["rest", "GET", base.URL + rng.pick(["statistic", "state", "statistic"]), "ok"]
        if self.cfg.get("rest_sends") and rng.chance(0.25):
            # an operator-originated UPDATE: it may stand in for a KEEPALIVE, it must not suppress one
            self.next_arrival = self.world.now() + rng.pick([0.0, 0.5, self.H / 6.0 if self.H else 1.0])
            return ["rest", "POST", base.URL + "send/update", "ok",
                    {"attr": {"1": 0, "2": [], "3": "10.0.0.1", "5": 100}, "nlri": ["10.%d.0.0/16" % rng.randrange(256)]}]
        if rng.chance(0.3):
            return ["send", self.k(), base.gen_update(rng, self.cfg, False).hex(), []]
        return ["send", self.k(), rp.encode_keepalive().hex(), []]

    def k(self):
        live = self.world.live_conns()
        for i in range(len(live) - 1, -1, -1):
            if live[i].readable():
                return i
        return 0

    # ------------------------------------------------------------------ oracle
    def step(self, op):
        w = self.world
        if self.done:
            return
        t_before = w.now()
        pos = len(w.log)
        if op[0] == "fire" and len(w.reactor.due()) > 1:
            self.stats["same_instant_timers"] += 1
        ran = w.apply(op)
        if self.in_prelude:
            # the earlier session is not judged; swallow its outputs
            self.observe(pos)
            self.prelude_left -= 1
            if (self.prelude_left <= 0 and not self.prelude_dyn) or (self.prelude_dyn and op[0] == "cdone" and ran):
                self.in_prelude = False
                self.stats["two_session_runs"] += 1
            return
        if not ran:
            return
        if op[0] == "clockstep":
            self.stats["op:clockstep"] += 1
        now = w.now()
        H = self.H
        phase_before = self.phase
        cell_h = "H=%s" % ("0" if H == 0 else "pos")
        # --- time passed: overdue checks evaluated at the new instant
        if now > t_before + EPS:
            self.time_check(now, cell_h)
        toks, escapes, handler = self.observe(pos)
        self.check_escapes(escapes, self.phase)
        if self.done:
            return
        rx_kinds = []
        for e in w.log[pos:]:
            if e[2] == "rx":
                # frames completed by this chunk (earlier octets of a frame may have arrived before)
                self.rxbuf = getattr(self, "rxbuf", b"") + bytes.fromhex(e[4])
                frames, rest = rp.deframe(self.rxbuf)
                self.rxbuf = rest
                for f in frames:
                    rx_kinds.append(f.type)
        self.trace.append([self.phase, op[0], [self.tokname(t) for t in toks], rx_kinds])
        for t in toks:
            self.token(t, now, cell_h, rx_kinds)
        # an UPDATE the agent neither decoded nor reported as malformed (yabgp drops some malformed bodies and
        # UPDATEs for families it has no name for without a trace: DESIGN A.2) is outside this property's
        # arrival schedules: whether it counts as an arrival is not judged, and neither is the rest of the run
        if rp.UPDATE in rx_kinds and self.cfg.get("malformed_updates") and not any(
                h[0] in ("update_received", "on_update_error") for h in handler):
            self.stats["update_dropped_without_report(run not judged further)"] += 1
            self.done = True
            return
        # arrivals restart the hold timer
        if self.phase in ("openconfirm", "established") and H > 0:
            for ty in rx_kinds:
                if ty in (rp.KEEPALIVE, rp.UPDATE):
                    self.deadline = now + H
                    self.stats["arrival_restarts_hold"] += 1
        if phase_before == "openconfirm" and rp.OPEN in rx_kinds and not self.done:
            self.stats["second_open_in_openconfirm"] += 1
        est_fault = any(e[2] == "handler_fault" and e[3] == "on_established" for e in w.log[pos:])
        if self.phase == "openconfirm" and rp.KEEPALIVE in rx_kinds and est_fault and w.state() == "OPENCONFIRM":
            # the application refused the 'established' event: the agent may stay in OpenConfirm (the next
            # KEEPALIVE tries again); the hold timer was restarted all the same (checked through `deadline`)
            self.stats["established_refused_by_application(tolerated)"] += 1
        elif self.phase == "openconfirm" and rp.KEEPALIVE in rx_kinds:
            if w.state() != "ESTABLISHED":
                raise Violation("C03", "session", "%s/keepalive-in-openconfirm-not-established" % cell_h,
                                "peer KEEPALIVE in OpenConfirm: agent reports %s" % w.state())
            self.phase = "established"
            self.nontrivial = True
        # states
        if self.phase in ("openconfirm", "established") and not self.expired:
            want = "OPENCONFIRM" if self.phase == "openconfirm" else "ESTABLISHED"
            if w.state() != want:
                raise Violation("C03", "session", "%s/%s-lost" % (cell_h, self.phase),
                                "session left %s (agent reports %s) at t=%.3f although every arrival gap was below "
                                "the hold time H=%s (hold deadline t=%s)" % (want, w.state(), now, H, self.deadline))
        self.cells.add("%s/%s/%s" % (cell_h, self.phase, op[0]))

    @staticmethod
    def tokname(t):
        if t[0] == "tx":
            return t[2] if not isinstance(t[2], tuple) else "NOTIF(%d,%d)" % (t[2][1], t[2][2])
        return t[0]

    def time_check(self, now, cell_h):
        H = self.H
        if self.phase == "opensent":
            d = self.t_open_sent + LARGE
            if now > d + EPS:
                raise Violation("C03", "large-hold", "OpenSent/no-expiry-at-240",
                                "no OPEN from the peer: Hold Timer Expired was due at t=%.3f (OPEN sent %.3f + 240 s) "
                                "but time passed to %.3f" % (d, self.t_open_sent, now))
        elif self.phase in ("openconfirm", "established"):
            if H > 0:
                if self.deadline is not None and now > self.deadline + EPS:
                    raise Violation("C03", "hold", "%s/%s/no-expiry-at-deadline" % (cell_h, self.phase),
                                    "nothing arrived for H=%s s: NOTIFICATION Hold Timer Expired was due at t=%.3f but "
                                    "time passed to %.3f with the session still up" % (H, self.deadline, now))
                if self.last_ka_tx is not None and now > self.last_ka_tx + H / 3.0 + EPS:
                    raise Violation("C03", "keepalive", "%s/%s/keepalive-overdue" % (cell_h, self.phase),
                                    "H=%s: last KEEPALIVE sent at t=%.3f, next was due by t=%.3f, time is %.3f"
                                    % (H, self.last_ka_tx, self.last_ka_tx + H / 3.0, now))

    def token(self, t, now, cell_h, rx_kinds):
        w = self.world
        H = self.H
        name = self.tokname(t)
        if t[0] == "connect":
            if self.phase == "boot":
                self.phase = "connect"
                return
            if self.phase == "ended":
                self.done = True          # reconnect after the expiry: outside this profile
                return
        if self.phase == "ended":
            if t[0] == "tx":
                raise Violation("C03", "after-close", "%s/tx-after-expiry:%s" % (cell_h, name.split("(")[0]),
                                "agent wrote %s at t=%.3f after Hold Timer Expired + close" % (name, now))
            return
        if t[0] == "tx" and name == "OPEN":
            self.phase = "opensent"
            self.t_open_sent = now
            self.cid = t[1]
            self.rxbuf = b""
            # the negotiated hold time is min of the two OPENs exchanged in this session (RFC 4271 4.2)
            try:
                fr = [f for f in rp.deframe(w.conns[t[1]].written)[0] if f.type == rp.OPEN]
                offered = rp.decode_open(fr[0].body).hold
            except (ValueError, IndexError):
                offered = self.cfg["hold_time"]
            if offered != self.cfg["hold_time"]:
                self.stats["agent_offered_other_than_configured"] += 1
            self.H = min(offered, self.cfg["peer_hold"])
            return
        if t[0] == "tx" and name == "KEEPALIVE":
            if self.phase == "opensent":
                if rp.OPEN not in rx_kinds:
                    raise Violation("C03", "keepalive", "OpenSent/keepalive-without-open", "KEEPALIVE sent in OpenSent")
                self.phase = "openconfirm"
                self.last_ka_tx = now
                self.deadline = now + H if H > 0 else None
                return
            if H == 0:
                raise Violation("C03", "keepalive", "H=0/periodic-keepalive",
                                "negotiated hold time 0 but a periodic KEEPALIVE was sent at t=%.3f" % now)
            if now > self.last_ka_tx + H / 3.0 + EPS:
                raise Violation("C03", "keepalive", "%s/%s/keepalive-late" % (cell_h, self.phase),
                                "H=%s: KEEPALIVE at t=%.3f, previous at %.3f: gap %.3f > H/3"
                                % (H, now, self.last_ka_tx, now - self.last_ka_tx))
            self.last_ka_tx = now
            self.stats["periodic_keepalive"] += 1
            return
        if t[0] == "tx" and name.startswith("NOTIF"):
            code, sub = t[2][1], t[2][2]
            if self.phase == "opensent":
                d = self.t_open_sent + LARGE
                if code == 4 and abs(now - d) <= EPS:
                    self.expired = True
                    self.nontrivial = True
                    self.stats["expiry_large_hold"] += 1
                    return
                if code == 2 and rp.OPEN in rx_kinds:
                    self.done = True      # the drawn OPEN was not acceptable (cannot happen by construction)
                    return
                raise Violation("C03", "large-hold", "OpenSent/%s-at-wrong-time" % name,
                                "%s at t=%.3f in OpenSent; the only timer is the 240 s large hold time (due %.3f)"
                                % (name, now, d))
            if code == 4 and H > 0 and self.deadline is not None and abs(now - self.deadline) <= EPS:
                self.expired = True
                self.nontrivial = True
                self.stats["expiry_negotiated_hold"] += 1
                return
            if code in (5, 6) and rp.OPEN in rx_kinds and self.phase == "openconfirm":
                self.done = True      # the agent refuses a second OPEN (tolerated, see C01): nothing to time
                self.stats["second_open_refused"] += 1
                return
            if code == 4:
                raise Violation("C03", "hold", "%s/%s/expiry-at-wrong-time" % (cell_h, self.phase),
                                "Hold Timer Expired sent at t=%.3f; negotiated H=%s, last arrival restarts put the "
                                "deadline at %s" % (now, H, self.deadline))
            raise Violation("C03", "session", "%s/%s/unexpected-%s" % (cell_h, self.phase, name),
                            "%s sent at t=%.3f although the peer only sent KEEPALIVE/UPDATE" % (name, now))
        if t[0] == "lose":
            if self.done:
                return
            if self.expired:
                self.phase = "ended"
                self.stats["closed_after_expiry"] += 1
                return
            raise Violation("C03", "session", "%s/%s/close-without-expiry" % (cell_h, self.phase),
                            "agent closed the connection at t=%.3f without a hold timer expiry (H=%s deadline=%s)"
                            % (now, H, self.deadline))
        if t[0] == "estab":
            return
        if t[0] == "tx" and name == "UPDATE" and self.cfg.get("rest_sends") and self.phase == "established":
            # RFC 4271 4.4: an UPDATE may take the place of a KEEPALIVE
            if H > 0 and self.last_ka_tx is not None and now > self.last_ka_tx + H / 3.0 + EPS:
                raise Violation("C03", "keepalive", "%s/%s/message-gap-over-third" % (cell_h, self.phase),
                                "H=%s: UPDATE at t=%.3f, previous agent message at %.3f" % (H, now, self.last_ka_tx))
            self.last_ka_tx = now if H > 0 else self.last_ka_tx
            self.stats["rest_update_sent"] += 1
            return
        if t[0] == "tx":
            raise Violation("C03", "session", "%s/%s/unexpected-%s" % (cell_h, self.phase, name), "unexpected %s" % name)

    def finish(self):
        if self.done:
            return
        if self.expired and self.phase != "ended":
            raise Violation("C03", "hold", "no-close-after-expiry",
                            "Hold Timer Expired was sent but the connection was not closed")


class TimersProfile(BaseProfile):
    id = "C03"
    runs = {"quick": 40000, "thorough": 1500000}
    rule = ("one run = (configured hold, proposed hold) from {0,3,4,9,30,90,180,65535}^2 + a peer arrival schedule of "
            "KEEPALIVE/UPDATE gaps from {H-e,H,H+e,H/3,0,H/2,3H,...} in OpenConfirm and Established (or total silence in "
            "OpenSent; 20 % of the runs mix in well-framed UPDATEs with malformed bodies - still UPDATEs for the hold timer -, 10 % let the application raise when told that the session is established, 15 % deliver some messages in two pieces - the first piece is not an arrival -, 15 % step the wall clock while the reactor's time base stays), all timers fired at their virtual instants with explicit tie order; non-trivial = reached "
            "Established or observed an expiry; distinct = distinct (phase, op, outputs, arrivals) sequence; 6 % of the runs begin with a connection that the agent's own hold timer ended; partial-frame runs also deliver a complete message plus most of a 4096-octet UPDATE in one segment")
    probes = ["gen:rest_read_in_session", "gen:message_plus_most_of_a_big_one", "two_session_runs", "gen:partial_frame_arrival", "op:clockstep", "gen:malformed_update_arrival", "established_refused_by_application(tolerated)", "gen:late_close_of_earlier_connection", "rest_update_sent", "second_open_in_openconfirm", "two_session_runs", "gen:tie_timer_vs_arrival", "same_instant_timers", "expiry_negotiated_hold", "expiry_large_hold",
              "periodic_keepalive", "arrival_restarts_hold", "closed_after_expiry"]

    def gen_config(self, rng, idx, tier):
        cfg = dict(base.DEFAULT_CFG)
        cfg["hold_time"] = HOLDS[idx % 8]
        cfg["peer_hold"] = HOLDS[(idx // 8) % 8]
        if rng.chance(0.25):
            # ... and values off the grid (the keepalive period H/3 is not an integer for most of them)
            cfg["peer_hold"] = rng.pick([5, 8, 11, 14, 20, 100, 240, 241, 300, rng.randrange(3, 400)])
        if rng.chance(0.08):
            cfg["hold_time"] = rng.pick([5, 8, 20, 100, 240, 240, 300, rng.randrange(3, 400)])
        if rng.chance(0.2):
            cfg["peer_open0"] = base.gen_open(rng, cfg, "valid", hold=rng.pick([0, 3, 9, 30, 90])).hex()
            cfg["prelude_clean"] = rng.chance(0.5)
            cfg["idle_hold_time"] = rng.pick([1, 30])
        cfg["call_later"] = rng.pick([0, 15])
        cfg["variant"] = "silence" if rng.chance(0.1) else "session"
        if not cfg.get("peer_open0") and rng.chance(0.08):
            cfg["prelude_opensent_drop"] = rng.pick([0.5, 20.0, 130.0, 200.0])
            cfg["prelude_clean"] = rng.chance(0.5)
            cfg["idle_hold_time"] = rng.pick([1, 30])
            if rng.chance(0.6):
                cfg["variant"] = "silence"
        if not cfg.get("peer_open0") and cfg.get("prelude_opensent_drop") is None and rng.chance(0.06):
            cfg["prelude_hold_expiry"] = rng.pick(["opensent", "established"])
            cfg["peer_open_x"] = base.gen_open(rng, cfg, "valid", hold=rng.pick([3, 9, 30])).hex()
            cfg["idle_hold_time"] = rng.pick([1, 30, 100])
            if rng.chance(0.6):
                cfg["variant"] = "silence"
        cfg["n_arrivals"] = rng.pick([0, 1, 2, 4, 8, 16])
        cfg["max_ops"] = 400
        cfg["peer_open"] = base.gen_open(rng, cfg, "valid", hold=cfg["peer_hold"]).hex()
        if cfg.get("peer_open0") and rng.chance(0.3):
            cfg["prelude_late_close"] = True
        cfg["rest_sends"] = rng.chance(0.15)
        cfg["rest_reads"] = rng.chance(0.15)
        cfg["malformed_updates"] = rng.chance(0.2)
        cfg["partial_frames"] = rng.chance(0.15)
        cfg["rr_arrivals"] = rng.chance(0.15)
        cfg["clock_steps"] = rng.pick([1, 2]) if rng.chance(0.15) else 0
        if rng.chance(0.12) and not cfg.get("hfail_established"):
            # the stock DefaultHandler (message log with a small rotation threshold on the simulated file
            # system) is the application; half of these runs also step the wall clock
            cfg["handler"] = "default"
            cfg["write_disk"] = rng.chance(0.7)        # (also: message logging switched off)
            cfg["write_keepalive"] = rng.chance(0.5)
            cfg["rotate_bytes"] = rng.pick([200, 600, 2000])
            if rng.chance(0.5):
                cfg["clock_steps"] = rng.pick([1, 2])
        if rng.chance(0.1):
            # Adj-RIB maintenance on, possibly for a family list without ipv4 (classic IPv4 UPDATEs still are UPDATEs)
            cfg["rib"] = True
            cfg["afi_safi"] = rng.pick([["ipv4"], ["flowspec"], ["ipv4", "flowspec"], ["ipv6"]])
        if rng.chance(0.1):
            cfg["hfail_established"] = rng.pick([1, 2, 3])
            cfg["hfail_only"] = ["on_established"]
            cfg["hfail_everywhere"] = True
        if rng.chance(0.12):
            cfg["second_open"] = base.gen_open(rng, cfg, "valid", hold=rng.pick([0, 3, 9, 30, 90, 180, 600])).hex()
        return cfg

    def new_ctx(self, cfg, tier):
        return TimersCtx(cfg, tier)


PROFILE = TimersProfile()
