"""Profiles built on the C01 alphabet with their own oracles:

  conn  (C12)  at most one TCP connection or attempt at any time
  stop  (C13)  operator stop is final until operator start
  heal  (C02)  session self-heals once the peer behaves
  stats (C18)  REST message statistics equal what crossed the wire
"""
from sim import refpeer as rp
from sim import model as M
from sim.engine import Violation
from sim.profiles import base
from sim.profiles.base import URL
from sim.profiles.fsm import FsmCtx, FsmProfile, swarm_config, MSG_EVENTS, PHASES

EPS = 1e-6


# =========================================================================== C12

class ConnCtx(FsmCtx):
    escape_is_violation = False
    prop = "C12"
    soft = True
    regime_exit = False

    def check_escapes(self, escapes, cell):
        # an exception that escapes into the reactor (e.g. a failing socket option) is logged there and
        # the peering lives on: the connection invariants still apply
        hard = [e for e in escapes if e[0] != "exc"]
        if escapes and not hard:
            self.stats["exception_escaped_into_reactor(run continues)"] += len(escapes)
            return
        FsmCtx.check_escapes(self, hard, cell)

    def __init__(self, cfg, tier):
        FsmCtx.__init__(self, cfg, tier)
        self.finishing = False

    def choose(self, rng):
        """Unrestricted environment: connects answered at any time or never, operator commands at
        any time, stale connections keep talking."""
        w = self.world
        cfg = self.cfg
        if w.exited or w.ops_done + w.ops_skipped >= cfg["max_ops"]:
            return None
        live = w.live_conns()
        due = w.reactor.due()
        thread_due = [i for i, c in enumerate(due) if c.kind == "thread" and c.time <= w.now()]
        if thread_due:
            # a call queued with callFromThread runs in the reactor's next iteration: a whole new session
            # cannot come up in between - but one more REST request can be served before it
            if not getattr(self, "gen_squeezed", False) and rng.chance(0.25):
                self.gen_squeezed = True
                return ["rest", "GET", URL + rng.pick(["manual-stop", "manual-start"]), "ok"]
            self.gen_squeezed = False
            return ["fire", thread_due[0]]
        if cfg.get("p_hfail") and w.handler_fail_in is None and rng.chance(cfg["p_hfail"]):
            return ["hfail", rng.randrange(1, 4)]
        choices = []
        pend = [k for k, c in enumerate(live) if c.state == "connecting"]
        readable = [k for k, c in enumerate(live) if c.readable()]
        closing = [k for k, c in enumerate(live) if c.closing()]
        if pend:
            choices.append(("conn_ok", cfg["w_connok"]))
            choices.append(("conn_refuse", cfg["w_connok"] * cfg["p_refuse"]))
        if readable:
            choices.append(("msg", cfg["w_msg"]))
            choices.append(("session", cfg["w_msg"]))
            choices.append(("close", cfg["w_close"]))
        if closing:
            choices.append(("cdone", cfg["w_cdone"]))
        if due:
            choices.append(("timer", cfg["w_timer"]))
        choices.append(("advance", cfg["w_timer"] * 0.3))
        choices.append(("stop", cfg["w_rest"]))
        choices.append(("start", cfg["w_rest"]))
        if w.state() == "ESTABLISHED":
            choices.append(("rest_send", max(cfg["w_rest"], 0.5) * 2))
        elif w.conns:
            # (also outside a session: a refused request writes nothing anywhere)
            choices.append(("rest_send", cfg["w_rest"] * 0.5))
        kind = rng.weighted(choices)
        if kind == "rest_send":
            # an operator announcement: it belongs on the connection the session runs on
            self.stats["gen:rest_send"] += 1
            return ["rest", "POST", URL + "send/update", "ok",
                    {"attr": {"1": 0, "2": [], "3": "10.0.0.1", "5": 100}, "nlri": ["10.%d.0.0/16" % rng.randrange(256)]}]
        if kind == "conn_ok":
            return ["conn_ok", rng.pick(pend)]
        if kind == "conn_refuse":
            return ["conn_refuse", rng.pick(pend)]
        if kind == "msg":
            return ["send", rng.pick(readable), self.msg_bytes(rng, rng.pick(MSG_EVENTS)).hex(), []]
        if kind == "session":
            # push the newest readable connection along the normal path
            k = readable[-1]
            st = w.state()
            if st == "OPENSENT":
                return ["send", k, base.gen_open(rng, cfg, "valid").hex(), []]
            return ["send", k, rp.encode_keepalive().hex(), []]
        if kind == "close":
            return ["pclose", rng.pick(readable), rng.chance(0.5)]
        if kind == "cdone":
            return ["cdone", rng.pick(closing)]
        if kind == "timer":
            return ["fire", rng.randrange(len(due))]
        if kind == "advance":
            return self.advance_op(rng)
        if kind == "stop":
            return ["rest", "GET", URL + "manual-stop", "ok"]
        return ["rest", "GET", URL + "manual-start", "ok"]

    def after_step(self, op, pos, evs, labels, toks, handler, cell):
        w = self.world
        live_before = None
        for t in toks:
            if t[0] == "connect":
                self.stats["connect_attempts"] += 1
                # (a) every earlier connector has ended or been aborted
                for c in w.conns[:t[1]]:
                    tr = c.c.transport
                    ended = c.state == "disconnected" or c.c.aborted or (tr is not None and tr.disconnecting)
                    if not ended:
                        what = "attempt" if c.state == "connecting" else "connection"
                        raise Violation("C12", "one-connection", "new-attempt-while-%s-live/%s" % (what, cell.split("/")[1] if "/" in cell else cell),
                                        "connectTCP #%d at t=%.3f while %s #%d (started t=%.3f) is still %s and was never aborted"
                                        % (t[1], w.now(), what, c.cid, c.t_connect, c.state))
            elif t[0] == "tx":
                # (b) messages only go to the most recently established connection
                est = [c.cid for c in w.conns if c.t_established is not None]
                if est and t[1] != est[-1]:
                    raise Violation("C12", "stale-write", "write-to-old-connection/%s" % self.abs_tok(t).split("(")[0],
                                    "%s written to connection #%d at t=%.3f while connection #%d is the newest established one"
                                    % (self.abs_tok(t), t[1], w.now(), est[-1]))
        # (b') ... also when the old connection is already gone (the write is dropped by the transport)
        for e in w.log[pos:]:
            if e[2] == "write_dropped":
                est = [c.cid for c in w.conns if c.t_established is not None]
                if est and e[3] != est[-1]:
                    raise Violation("C12", "stale-write", "write-to-old-connection/dropped",
                                    "%s written to the closed connection #%d at t=%.3f while connection #%d is the newest established one"
                                    % (rp.describe(bytes.fromhex(e[4])), e[3], w.now(), est[-1]))
        nlive = len([c for c in w.conns if c.live() and not c.closing() and not c.c.aborted])
        self.stats["max_live_%d" % min(nlive, 3)] += 1
        if nlive > 1:
            live = [c for c in w.conns if c.live() and not c.closing() and not c.c.aborted]
            raise Violation("C12", "one-connection", "two-live/%s" % "+".join(sorted(c.state for c in live)),
                            "after %s at t=%.3f connections %s are live at the same time"
                            % (op[0], w.now(), [(c.cid, c.state) for c in live]))

    def finish(self):
        """(c) the peer leaves everything open; once all timers had their chance every connection the
        agent opened is either the one its FSM is in session on, or has been closed."""
        w = self.world
        if w.exited or self.done:
            return
        t_end = w.now() + 2 * 240.0 + 2 * max(self.cfg["connect_retry_time"], self.cfg["idle_hold_time"], 30)
        n = 0
        while n < 80:
            nt = w.reactor.next_time()
            if nt is None or nt > t_end:
                break
            pos = len(w.log)
            w.apply(["fire", 0])
            toks, escapes, handler = self.observe(pos)
            self.check_escapes(escapes, "drain")
            self.after_step(["fire", 0], pos, [], [], toks, handler, "drain/timer")
            n += 1
        fsm = w.factory.fsm
        tracked = None
        if fsm.protocol is not None and w.state() in ("OPENSENT", "OPENCONFIRM", "ESTABLISHED"):
            tracked = getattr(fsm.protocol.transport, "cid", None)
        for c in w.conns:
            if c.state == "connected" and not c.closing() and c.cid != tracked:
                raise Violation("C12", "leak", "open-unreferenced-connection/agent-state-%s" % w.state(),
                                "connection #%d (established t=%.3f) is still open at t=%.3f but the FSM (state %s) tracks %s"
                                % (c.cid, c.t_established, w.now(), w.state(), tracked))
            if c.state == "connecting" and w.state() != "CONNECT":
                raise Violation("C12", "leak", "pending-attempt/agent-state-%s" % w.state(),
                                "attempt #%d is still pending at t=%.3f while the agent reports %s" % (c.cid, w.now(), w.state()))
        self.stats["drained_runs"] += 1


class ConnProfile(FsmProfile):
    id = "C12"
    runs = {"quick": 30000, "thorough": 1000000}
    ctx_class = ConnCtx
    rule = ("one run = swarm configuration (connect_retry_time below/at/above the fixed 30 s TCP timeout) + up to 60 ops with NO "
            "restriction on when pending connects are answered (or never), when the operator stops/starts, which connection "
            "(also stale ones) the peer talks on and when closes complete; at the end all timers are drained with the peer "
            "leaving everything open; non-trivial = reached OpenSent or beyond; distinct = distinct (state,event) cell sequence")
    probes = ["op:hfail", "exception_escaped_into_reactor(run continues)", "connect_attempts", "ev:conn_timeout", "ev:stop", "ev:start", "max_live_1", "drained_runs", "same_instant_choice"]

    def gen_config(self, rng, idx, tier):
        cfg = swarm_config(rng, idx)
        cfg["w_connok"] = rng.pick([0.1, 0.5, 2])
        cfg["w_cdone"] = rng.pick([0.3, 1, 3])
        cfg["w_rest"] = rng.pick([0.1, 0.3, 1])
        cfg["w_timer"] = rng.pick([1, 2, 4])
        if rng.chance(0.1):
            # TCP-MD5 configured; on half of these hosts the kernel refuses the socket option
            cfg["md5"] = rng.pick(["s3cr3t", "k" * 81])
            cfg["sockopt_errno"] = rng.pick([None, 92, 22])
        if rng.chance(0.25):
            # the application handler raises (storage full) at a few callbacks for received messages (not at
            # send_open: there the unchanged agent itself is left in Connect with the connection open and no
            # timer running - DESIGN A.2 - so nothing can be demanded of a changed one)
            cfg["p_hfail"] = rng.pick([0.03, 0.08, 0.2])
            cfg["hfail_only"] = ["on_update_error", "update_received", "keepalive_received", "open_received",
                                 "route_refresh_received", "notification_received"]
        if rng.chance(0.12):
            # Adj-RIB maintenance on, for a family list with or without ipv4
            cfg["rib"] = True
            cfg["afi_safi"] = rng.pick([["ipv4"], ["flowspec"], ["ipv6", "flowspec"], ["ipv4", "flowspec"]])
        return cfg


# =========================================================================== C13

class StopCtx(FsmCtx):
    escape_is_violation = False
    prop = "C13"
    soft = True
    regime_exit = False

    def check_escapes(self, escapes, cell):
        # an exception that escapes into the reactor (a failing socket option, a raising application
        # handler) is logged there and the peering lives on: the operator's stop still has to be final
        hard = [e for e in escapes if e[0] != "exc"]
        if escapes and not hard:
            self.stats["exception_escaped_into_reactor(run continues)"] += len(escapes)
            return
        FsmCtx.check_escapes(self, hard, cell)

    def __init__(self, cfg, tier):
        FsmCtx.__init__(self, cfg, tier)
        self.op_stopped = False       # between a successful manual stop and the next manual start
        self.stage = 0
        self.stage_left = None

    def choose(self, rng):
        w = self.world
        cfg = self.cfg
        if w.exited or w.ops_done + w.ops_skipped >= cfg["max_ops"]:
            return None
        # stage 0: reach a state (C01 walk with steering); 1: stop; 2: continuation; 3: start; 4: more; then again
        if self.stage_left is None:
            self.stage_left = rng.randrange(0, 14)
        if self.stage_left <= 0:
            self.stage = (self.stage + 1) % 4
            self.stage_left = {0: rng.randrange(0, 14), 1: 1, 2: rng.randrange(1, 25), 3: 1}[self.stage]
        self.stage_left -= 1
        if self.stage == 1:
            if w.state() == "ESTABLISHED" and not getattr(self, "gen_presend", False) and rng.chance(0.25):
                # the operator's last announcement / refresh request and the stop arrive back to back (no reactor
                # turn in between): whatever still goes out must go out BEFORE the Cease
                self.gen_presend = True
                self.stage_left += 1
                self.stats["gen:rest_send_right_before_stop"] += 1
                if rng.chance(0.5):
                    return ["rest", "POST", URL + "send/route-refresh", "ok", {"afi": 1, "safi": 1, "res": 0}]
                return ["rest", "POST", URL + "send/update", "ok",
                        {"attr": {"1": 0, "2": [], "3": "10.0.0.1", "5": 100}, "nlri": ["10.%d.0.0/16" % rng.randrange(256)]}]
            self.gen_presend = False
            return ["rest", "GET", URL + "manual-stop", "ok"]
        if self.stage == 3:
            return ["rest", "GET", URL + "manual-start", "ok"]
        if self.stage == 2:
            # environment goes on while the peer is stopped: pending connects resolve, timers fire,
            # the peer talks or closes, closes complete
            live = w.live_conns()
            due = w.reactor.due()
            ch = []
            pend = [k for k, c in enumerate(live) if c.state == "connecting"]
            readable = [k for k, c in enumerate(live) if c.readable()]
            closing = [k for k, c in enumerate(live) if c.closing()]
            if pend:
                ch += [("conn_ok", 3), ("conn_refuse", 1)]
            if readable:
                ch += [("msg", 2), ("close", 1)]
            if closing:
                ch += [("cdone", 2)]
            if due:
                ch += [("timer", 3)]
            ch += [("advance", 1), ("read", 0.5), ("stop_again", 0.2), ("rest_send", 0.6)]
            kind = rng.weighted(ch)
            if kind == "conn_ok":
                return ["conn_ok", rng.pick(pend)]
            if kind == "conn_refuse":
                return ["conn_refuse", rng.pick(pend)]
            if kind == "msg":
                return ["send", rng.pick(readable), self.msg_bytes(rng, rng.pick(MSG_EVENTS)).hex(), []]
            if kind == "close":
                return ["pclose", rng.pick(readable), rng.chance(0.5)]
            if kind == "cdone":
                return ["cdone", rng.pick(closing)]
            if kind == "timer":
                return ["fire", rng.randrange(len(due))]
            if kind == "advance":
                return self.advance_op(rng)
            if kind == "read":
                return ["rest", "GET", URL + "state", "ok"]
            if kind == "rest_send":
                # the operator (or a script of theirs) keeps posting: a stopped peer sends nothing
                self.stats["gen:rest_send_while_stopped"] += 1
                if rng.chance(0.7):
                    return ["rest", "POST", URL + "send/update", "ok",
                            {"attr": {"1": 0, "2": [], "3": "10.0.0.1", "5": 100}, "nlri": ["10.%d.0.0/16" % rng.randrange(256)]}]
                return ["rest", "POST", URL + "send/route-refresh", "ok", {"afi": 1, "safi": 1, "res": 0}]
            return ["rest", "GET", URL + "manual-stop", "ok"]
        # stage 0: C01-style walk without operator stop (start while up is part of it)
        if w.state() == "ESTABLISHED" and rng.chance(0.06):
            # the application queues a message; it goes out when the peer's next KEEPALIVE arrives
            self.stats["gen:handler_queued_message"] += 1
            return ["hqueue", rng.pick(["notification", "notification", "update"]), rng.randrange(1, 9)]
        if w.state() == "ESTABLISHED" and not w.handler.inter_mq.empty() and rng.chance(0.6):
            k = self.cur_k()
            if k is not None:
                return ["send", k, rp.encode_keepalive().hex(), []]
        op = FsmCtx.choose(self, rng)
        if op is not None and op[0] == "rest" and op[2].endswith("manual-stop"):
            return ["rest", "GET", URL + "manual-start", "ok"]
        return op

    def timers_snapshot(self):
        return sorted((round(c.time, 6), c.name()) for c in self.world.reactor._calls if c.active())

    def step(self, op):
        self.state_before = self.world.state()
        self.timers_before = self.timers_snapshot()
        self.live_before = [(c.cid, c.state, c.closing()) for c in self.world.live_conns()]
        FsmCtx.step(self, op)

    def after_step(self, op, pos, evs, labels, toks, handler, cell):
        w = self.world
        is_stop = ("stop",) in evs
        is_start = ("start",) in evs
        ac = getattr(self, "await_connect", None)
        if ac is not None:
            if any(t[0] == "connect" for t in toks):
                self.await_connect = None
            elif w.now() > ac[0] + 1e-9 or is_stop:
                self.await_connect = None
                if not is_stop:
                    raise Violation("C13", "start", "stopped/no-connect-at-once/got:%s" % (",".join(ac[1]) or "nothing"),
                                    "manual start from the stopped state at t=%.3f must begin connecting at once; time has passed "
                                    "to %.3f without a connection attempt (state %s)" % (ac[0], w.now(), w.state()))
        st_before = self.state_before
        names = [self.abs_tok(t) for t in toks]
        if is_stop:
            self.stats["stop_in_" + st_before] += 1
            if any(s == "connecting" for _, s, _ in self.live_before):
                self.stats["stop_with_attempt_in_flight"] += 1
            if any(cl for _, _, cl in self.live_before):
                self.stats["stop_while_closing"] += 1
            if not self.op_stopped:
                if st_before == "ESTABLISHED":
                    ok = len(toks) == 2 and toks[0][0] == "tx" and isinstance(toks[0][2], tuple) and toks[0][2][1] == 6 \
                        and toks[1][0] == "lose" and toks[1][1] == toks[0][1]
                    if not ok:
                        raise Violation("C13", "stop", "Established/expected-Cease+close/got:%s" % (",".join(names) or "nothing"),
                                        "manual stop in Established must send NOTIFICATION Cease and close; agent did %s" % names)
                else:
                    bad = [n for t, n in zip(toks, names) if t[0] in ("connect",) or (t[0] == "tx" and not n.startswith("NOTIF(6"))]
                    if bad:
                        raise Violation("C13", "stop", "%s/unexpected:%s" % (st_before, ",".join(bad)),
                                        "manual stop in %s: agent did %s" % (st_before, names))
            self.op_stopped = True
            self.t_stop = w.now()
            self.seq_at_stop = w.reactor._seq
            # every connection closed, closing or aborted
            for c in w.live_conns():
                if c.c.aborted or c.closing():
                    continue
                raise Violation("C13", "stop", "%s/connection-left-%s" % (st_before, c.state),
                                "after manual stop in %s connection/attempt #%d is still %s (not closed, not aborted)"
                                % (st_before, c.cid, c.state))
        elif is_start:
            if self.op_stopped:
                self.stats["start_from_stopped"] += 1
                self.op_stopped = False
                self.t_started = w.now()
                # "at once" = before any time passes: a connect made by a zero-delay call in the next reactor turn
                # still counts; time passing (or a new stop) without a connect does not
                self.await_connect = None if any(t[0] == "connect" for t in toks) else (w.now(), names)
            else:
                self.stats["start_in_" + st_before] += 1
                if st_before in ("OPENSENT", "OPENCONFIRM", "ESTABLISHED"):
                    if toks or w.state() != st_before or self.timers_snapshot() != self.timers_before:
                        raise Violation("C13", "start", "%s/start-while-up-changed-something" % st_before,
                                        "manual start while %s: outputs %s, state now %s, timers before %s after %s"
                                        % (st_before, names, w.state(), self.timers_before, self.timers_snapshot()))
        elif self.op_stopped:
            # anything the environment does while stopped: silence
            self.stats["ops_while_stopped"] += 1
            fired = [e for e in w.log[pos:] if e[2] == "fire"]
            in_flight = bool(fired) and fired[0][3] == "thread" and fired[0][5] <= getattr(self, "seq_at_stop", -1)
            if in_flight and any(t[0] == "tx" for t in toks):
                # a deferred write that had been queued before the stop (message accepted earlier, in flight)
                self.stats["deferred_write_in_flight_at_stop"] += 1
            for t, n in zip(toks, names):
                if in_flight and t[0] == "tx":
                    continue
                if t[0] == "tx" or t[0] == "connect":
                    raise Violation("C13", "silence", "while-stopped/%s/%s" % (labels[0] if labels else op[0], n.split("(")[0]),
                                    "stopped since t=%.3f; on %s at t=%.3f the agent did %s"
                                    % (self.t_stop, labels or op[0], w.now(), names))
        if self.op_stopped:
            if w.state() != "IDLE":
                raise Violation("C13", "silence", "while-stopped/reports-%s" % w.state(),
                                "stopped since t=%.3f but the agent reports %s after %s" % (self.t_stop, w.state(), labels or op[0]))
            for c in w.live_conns():
                if c.state == "connected" and not c.closing():
                    raise Violation("C13", "silence", "while-stopped/connection-open-after-%s" % (labels[0] if labels else op[0]),
                                    "stopped since t=%.3f but connection #%d is open and not being closed" % (self.t_stop, c.cid))
        else:
            # automatic recovery in force: an Idle agent (nothing closing) reconnects within idle_hold_time
            if w.state() == "IDLE" and not any(c.closing() for c in w.live_conns()):
                if getattr(self, "idle_since", None) is None:
                    self.idle_since = w.now()
                limit = max(self.cfg["idle_hold_time"], self.cfg["call_later"], self.cfg["connect_retry_time"]) + EPS
                if w.now() - self.idle_since > limit:
                    raise Violation("C13", "recovery", "not-stopped/idle-longer-than-idle-hold",
                                    "not stopped, Idle since t=%.3f, now %.3f: no reconnect within %s s"
                                    % (self.idle_since, w.now(), limit))
            else:
                self.idle_since = None
        if self.op_stopped:
            self.idle_since = None


class StopProfile(FsmProfile):
    id = "C13"
    runs = {"quick": 20000, "thorough": 600000}
    ctx_class = StopCtx
    rule = ("one run = cycles of [C01-style walk to some state (incl. connecting, closing, damped)] -> GET manual-stop -> "
            "1-24 environment ops (pending connect resolves, timers, peer data/close, close completion, repeated stop) -> "
            "GET manual-start -> more ops; non-trivial = reached OpenSent or beyond; distinct = distinct cell sequence")
    probes = ["gen:handler_queued_message", "stop_in_ESTABLISHED", "stop_in_CONNECT", "stop_in_OPENSENT", "stop_in_OPENCONFIRM", "stop_in_IDLE",
              "stop_with_attempt_in_flight", "stop_while_closing", "start_from_stopped", "start_in_ESTABLISHED",
              "ops_while_stopped"]

    def gen_config(self, rng, idx, tier):
        cfg = swarm_config(rng, idx)
        cfg["max_ops"] = rng.pick([30, 45, 60, 80])
        if rng.chance(0.25):
            # the application handler raises (storage full) at a few message callbacks
            cfg["p_hfail"] = rng.pick([0.03, 0.08, 0.2])
        if rng.chance(0.1):
            # TCP-MD5 configured; on half of these hosts the kernel refuses the socket option (92 = no such
            # protocol option, 22 = key too long)
            cfg["md5"] = rng.pick(["s3cr3t", "k" * 81])
            cfg["sockopt_errno"] = rng.pick([None, 92, 22])
        return cfg


# =========================================================================== C02

class HealCtx(FsmCtx):
    escape_is_violation = False
    prop = "C02"
    soft = True
    regime_exit = False

    def check_escapes(self, escapes, cell):
        # an exception escaping from a callback is logged by the reactor and life goes on: whether the
        # agent still heals afterwards is exactly this property's business.  Only a cut-off endless loop
        # or an exit leaves nothing to judge.
        hard = [e for e in escapes if e[0] != "exc"]
        if escapes and not hard:
            self.stats["exception_escaped_into_reactor(run continues)"] += len(escapes)
            return
        FsmCtx.check_escapes(self, hard, cell)

    def __init__(self, cfg, tier):
        if cfg.get("handler") == "default":
            # some runs use the real DefaultHandler (message log on the simulated file system, small
            # rotation threshold): the application side must not keep the session from healing
            from sim import simfs
            from sim.world import World
            import collections
            self.cfg = cfg
            self.tier = tier
            self.stats = collections.Counter()
            self.cells = set()
            self.trace = []
            self.nontrivial = False
            self.fs = simfs.SimFS()
            self.world = World(cfg, fs=self.fs)
            self.pos = len(self.world.log)
            self.tx_off = {}
            self.done = False
            self.t0 = self.world.now()
            from sim import model as _M
            self.model = _M.Model(cfg)
            self.rx = {}
            self.rx_dead = set()
            self.left_regime = False
            self.target = None
            self.as4 = {}
            self.agent_as4 = {}
            self.last_label = None
        else:
            FsmCtx.__init__(self, cfg, tier)
        self.coop = False
        self.first_open = None
        self.coop_ops = 0
        self.t_switch = None
        self.t_estab = None
        self.estab_cid = None
        self.answered = set()
        self.sent_open = set()
        self.sent_ka = set()
        self.peer_ka_at = {}
        self.prefix_len = cfg["prefix_len"]
        self.settled = False
        self.H = min(cfg["hold_time"], cfg["peer_hold"])
        self.kinds_seen = set()
        self.silent = False
        self.op_stopped = False
        self.stopped_at_switch = False
        self.peer_expired = set()
        self.unsigned_at_switch = set()

    # ---- generation
    def choose(self, rng):
        w = self.world
        if w.exited:
            return None
        if not self.coop:
            n = w.ops_done + w.ops_skipped
            if n < self.prefix_len:
                op = FsmCtx.choose(self, rng)
                if op is not None:
                    return op
            if (self.model.stopped or self.stopped_by_rest()) and getattr(self, "gen_starts", 0) < 3:
                # (an agent whose manual-start no longer works is not asked for ever: the run then switches with the
                # operator's stop in force and is not judged for healing)
                self.gen_starts = getattr(self, "gen_starts", 0) + 1
                return ["rest", "GET", URL + "manual-start", "ok"]
            return ["coop"]
        return None      # the cooperative phase is not generated: see auto_op()

    @property
    def auto_started(self):
        return self.coop

    def auto_op(self):
        """Deterministic continuation run by the engine after the recorded ops, in generation and in
        replay alike: what the cooperative peer does next, as a function of what it can see."""
        if not self.coop or self.world.exited:
            return None
        return self.coop_op()

    def stopped_by_rest(self):
        return self.model.stopped or self.op_stopped

    def coop_op(self):
        """The cooperative peer, as a deterministic function of what it can see."""
        w = self.world
        cfg = self.cfg
        if self.coop_ops > 400:
            return None
        self.coop_ops += 1
        live = w.live_conns()
        now = w.now()
        # 1. connections from the adversarial phase are reset -- or (variant) the one the agent waits on
        # in OpenSent is dead: the peer's end is gone without a FIN/RST having reached the agent, nothing
        # will ever arrive on it, and only the agent's own hold timer can end the wait
        for k, c in enumerate(live):
            if c.cid < self.first_coop_cid and c.state == "connected" and not (self.silent and c.readable()) \
                    and not (cfg.get("late_cdone") and c.closing()):
                return ["pclose", k, False]
        # 2. closes complete at once -- or (variant) a close of the adversarial phase that is still pending at
        # the switch completes only when the recovery session is up (the old connection's teardown is slow)
        for k, c in enumerate(live):
            if c.closing():
                nt_ = w.reactor.next_time()
                if cfg.get("late_cdone") and c.cid < self.first_coop_cid and self.t_estab is None \
                        and ((nt_ is not None and nt_ <= self.liveness_deadline())
                             or any(x.state == "connecting" or x.readable() for x in live)):
                    # (held back only while the agent has something to do within the bound: if it waits for this
                    # close before it reconnects, the close completes now)
                    continue
                if cfg.get("late_cdone") and c.cid < self.first_coop_cid and self.t_estab is not None:
                    self.stats["gen:close_of_old_connection_completes_after_recovery"] += 1
                return ["cdone", k]
        # 3. pending connects are accepted within one second - with TCP-MD5 configured only if the attempt's
        # socket carries the key: the peer's stack drops unsigned SYNs without an answer (an unsigned attempt left
        # over from the adversarial phase, where setsockopt may have failed, is reset instead: the last hostile act)
        for k, c in enumerate(live):
            if c.state == "connecting" and cfg.get("md5") and not self.signed(c):
                if c.cid < self.first_coop_cid or c.cid in self.unsigned_at_switch:
                    return ["conn_refuse", k]
                self.stats["unsigned_attempt_ignored_by_peer"] += 1
                continue
            if c.state == "connecting":
                dl = c.t_connect + cfg["connect_latency"]
                if now >= dl - EPS:
                    return ["conn_ok", k]
                nt = w.reactor.next_time()
                if nt is not None and nt < dl - EPS:
                    return ["fire", 0]
                return ["advance", dl - now]
        # 4. session on the newest connection
        for k, c in enumerate(live):
            if c.readable() and not (self.silent and c.cid < self.first_coop_cid):
                frames = rp.deframe(c.written)[0]
                types = [f.type for f in frames]
                if rp.OPEN in types and c.cid not in self.sent_open:
                    self.sent_open.add(c.cid)
                    of = [f for f in frames if f.type == rp.OPEN][0]
                    try:
                        om = rp.decode_open(of.body)
                        rej = rp.open_acceptable(om, cfg["local_as"])
                    except ValueError:
                        rej = (2, 0)
                    if rej:
                        self.rejected = rej
                        return ["send", k, rp.encode_notification(*rej).hex(), []]
                    cut = cfg.get("coop_cut")
                    n = len(cfg["peer_open"]) // 2
                    # (some cooperative peers' OPEN reaches the agent in two TCP segments)
                    return ["send", k, cfg["peer_open"], [min(cut, n - 1)] if cut else []]
                if types.count(rp.KEEPALIVE) >= 1 and c.cid in self.sent_open and c.cid not in self.sent_ka:
                    self.sent_ka.add(c.cid)
                    self.peer_ka_at[c.cid] = now
                    return ["send", k, rp.encode_keepalive().hex(), []]
                if c.cid in self.sent_ka:
                    # periodic keepalives every H/3 (peer side)
                    if self.H > 0:
                        nxt = self.peer_ka_at[c.cid] + self.H / 3.0
                    else:
                        nxt = float("inf")
                    end = self.end_time()
                    if end is not None and now >= end - EPS:
                        return None
                    # the peer runs its own hold timer, like any router: silence of the agent for the
                    # negotiated hold time ends the session from the peer's side
                    if self.H > 0 and c.write_times:
                        peer_deadline = c.write_times[-1][0] + self.H
                        if now >= peer_deadline - EPS and c.cid not in self.peer_expired:
                            self.peer_expired.add(c.cid)
                            return ["send", k, rp.encode_notification(4, 0).hex(), []]
                        nxt = min(nxt, peer_deadline)
                    nt = w.reactor.next_time()
                    horizon = min(nxt, end if end is not None else nxt)
                    if nt is not None and nt < horizon - EPS:
                        return ["fire", 0]
                    if nt is not None and abs(nt - horizon) <= EPS and now >= nt - EPS:
                        return ["fire", 0]
                    if now < horizon - EPS:
                        return ["advance", horizon - now]
                    if horizon == nxt:
                        self.peer_ka_at[c.cid] = now
                        return ["send", k, rp.encode_keepalive().hex(), []]
                    return None
        # 5. nothing to answer: let the agent's timers run (bounded by the liveness deadline + margin)
        nt = w.reactor.next_time()
        if self.t_estab is None and now > self.liveness_deadline() + 5:
            return None
        if nt is None:
            # the agent has nothing scheduled at all: time passes nevertheless
            if self.t_estab is None:
                return ["advance", self.liveness_deadline() + 6 - now]
            return None
        return ["fire", 0]

    @staticmethod
    def signed(c):
        tr = c.c.transport
        return bool(tr is not None and getattr(tr, "sock", None) is not None and tr.sock.sockopts)

    def end_time(self):
        if self.t_estab is None:
            return None
        return self.t_estab + (3.0 * self.H if self.H > 0 else 3.0 * 240.0)

    def liveness_deadline(self):
        c = self.cfg
        # (dead-connection variant: plus the OpenSent hold timer, RFC 4271 'large value', 240 s in yabgp)
        return self.t_switch + (240.0 if self.silent else 0.0) + max(c["idle_hold_time"], self.boot_left) + c["connect_latency"] + 1.0

    # ---- oracle
    def step(self, op):
        w = self.world
        if op[0] == "coop":
            if self.coop:
                return
            self.coop = True
            self.stopped_at_switch = self.op_stopped
            # the scenario is only meaningful if what the cooperative peer will send is a valid OPEN for this
            # configuration (always true for generated runs; a replay whose configuration fields were reset
            # one by one by the shrinker can pair the OPEN with another remote_as)
            try:
                fr = rp.deframe(bytes.fromhex(self.cfg["peer_open"]))[0]
                om = rp.decode_open(fr[0].body)
                if rp.open_acceptable(om, self.cfg["remote_as"]) or om.hold != self.cfg["peer_hold"]:
                    self.stopped_at_switch = True
            except (ValueError, IndexError, KeyError):
                self.stopped_at_switch = True
            self.t_switch = w.now()
            w.handler_fail_in = None        # the application's storage works again
            w.take_sockfail()               # ... and so does setsockopt
            self.first_coop_cid = len(w.conns)
            # a pending attempt of the adversarial phase is simply answered by the now cooperative peer
            self.unsigned_at_switch = set()
            for c in w.live_conns():
                if c.state == "connecting":
                    self.first_coop_cid = min(self.first_coop_cid, c.cid)
                    if self.cfg.get("md5") and not self.signed(c):
                        self.unsigned_at_switch.add(c.cid)
            self.boot_left = 0.0
            if not any(e[2] == "connect" for e in w.log):
                self.boot_left = max(0.0, self.cfg["call_later"] - w.now())
            self.state_at_switch = w.state()
            self.silent = bool(self.cfg.get("dead_old_connection")) and w.state() == "OPENSENT" and \
                any(c.readable() and c.cid < self.first_coop_cid for c in w.live_conns())
            if self.silent:
                self.stats["switch_with_dead_connection_in_OpenSent"] += 1
                self.state_at_switch = "OPENSENT(dead-connection)"
            self.cells.add("switch/%s" % self.model.phase)
            self.trace.append("switch/%s" % self.model.phase)
            self.stats["switch_in_" + w.state()] += 1
            if self.cfg.get("handler") == "default":
                self.stats["gen:default_handler_runs"] += 1
            if any(c.closing() for c in w.live_conns()):
                self.stats["switch_during_close_completion"] += 1
            return
        FsmCtx.step(self, op)

    def after_step(self, op, pos, evs, labels, toks, handler, cell):
        w = self.world
        for t in toks:
            if t[0] == "tx" and t[2] == "OPEN":
                fr = [f for f in rp.deframe(w.conns[t[1]].written)[0] if f.type == rp.OPEN]
                try:
                    summ = rp.decode_open(fr[0].body).summary()
                except ValueError as e:
                    raise Violation("C02", "open", "malformed-open", "agent OPEN does not parse: %s" % e)
                if self.first_open is None:
                    self.first_open = summ
                    self.first_open_cid = t[1]
                elif self.coop and summ != self.first_open:
                    diff = [k for k in sorted(summ) if summ[k] != self.first_open[k]]
                    raise Violation("C02", "next-open-unchanged", "open-differs:%s" % "+".join(diff),
                                    "OPEN of the recovery session (connection #%d) differs from the first OPEN of the run "
                                    "(connection #%d) in %s: first %s, now %s"
                                    % (t[1], self.first_open_cid, diff, self.first_open, summ))
        if ("stop",) in evs:
            self.op_stopped = True
        elif ("start",) in evs:
            self.op_stopped = False
        if not self.coop:
            for lb in labels:
                self.kinds_seen.add(lb)
            return
        if self.stopped_at_switch:
            return      # (only in a cut-down replay: the generator always has the operator start the peer first)
        now = w.now()
        if self.t_estab is None:
            up = [c.cid for c in w.live_conns() if c.readable()]
            # (a session still up from the adversarial phase does not count: the cooperative peer
            # resets those connections first)
            if w.state() == "ESTABLISHED" and up and up[-1] >= self.first_coop_cid:
                self.t_estab = now
                self.nontrivial = True
                self.estab_cid = up[-1]
                self.stats["healed"] += 1
                if now > self.liveness_deadline() + EPS:
                    raise Violation("C02", "liveness", "established-late/switch-in-%s" % self.state_at_switch,
                                    "peer cooperative since t=%.3f (agent was %s): Established only at t=%.3f, bound %.3f "
                                    "(idle_hold %s + connect %s + slack 1)"
                                    % (self.t_switch, self.state_at_switch, now, self.liveness_deadline(),
                                       self.cfg["idle_hold_time"], self.cfg["connect_latency"]))
            elif now > self.liveness_deadline() + EPS:
                raise Violation("C02", "liveness", "not-established/switch-in-%s/now-%s" % (self.state_at_switch, w.state()),
                                "peer cooperative since t=%.3f (agent was %s, prefix events %s): at t=%.3f the agent is %s, "
                                "not Established; bound was %.3f%s"
                                % (self.t_switch, self.state_at_switch, sorted(self.kinds_seen)[:12], now, w.state(),
                                   self.liveness_deadline(),
                                   "; a conformant peer answered its OPEN with NOTIFICATION%s" % (self.rejected,)
                                   if getattr(self, "rejected", None) else ""))
        else:
            if w.state() != "ESTABLISHED":
                raise Violation("C02", "stays-up", "dropped-after-heal/%s" % (labels[0] if labels else op[0]),
                                "Established at t=%.3f with a cooperative peer (H=%s) but at t=%.3f the agent reports %s"
                                % (self.t_estab, self.H, now, w.state()))

    def finish(self):
        w = self.world
        if not self.coop or w.exited or self.stopped_at_switch:
            return
        if self.t_estab is None:
            if w.now() <= self.liveness_deadline() + EPS:
                return      # truncated run (replay of a shrunk op list): the bound has not passed yet
            raise Violation("C02", "liveness", "not-established/switch-in-%s/now-%s" % (self.state_at_switch, w.state()),
                            "peer cooperative since t=%.3f (agent was %s): run ended at t=%.3f in %s without Established"
                            % (self.t_switch, self.state_at_switch, w.now(), w.state()))
        end = self.end_time()
        if w.now() < end - EPS:
            return      # truncated replay
        up = [c.cid for c in w.live_conns() if c.readable()]
        if w.state() != "ESTABLISHED" or not up or up[-1] != self.estab_cid:
            raise Violation("C02", "stays-up", "not-same-session-after-3H",
                            "Established at t=%.3f on connection #%s; 3 hold times later (t=%.3f) state=%s connection=%s"
                            % (self.t_estab, self.estab_cid, w.now(), w.state(), up))
        self.stats["stayed_up_3H"] += 1


class HealProfile(FsmProfile):
    id = "C02"
    runs = {"quick": 30000, "thorough": 1000000}
    ctx_class = HealCtx
    rule = ("one run = adversarial prefix of 0-60 ops over the C01 alphabet (operator never leaves the peer stopped; in 35 % of the runs the application handler raises ENOSPC at a few message callbacks), then the "
            "peer turns cooperative: resets old connections (30 % of runs: a connection the agent waits on in OpenSent is instead dead -- nothing ever arrives on it -- and the bound grows by the 240 s OpenSent hold timer), accepts connects within <=1 s, validates the agent's OPEN like a "
            "real router, answers with a valid OPEN and KEEPALIVEs every H/3 for 3 hold times; non-trivial = healed to "
            "Established; distinct = distinct prefix cell sequence + switch state; 12 % of the runs configure TCP-MD5 and let setsockopt fail on single attempts of the adversarial phase")
    probes = ["op:sockfail", "gen:close_of_old_connection_completes_after_recovery", "op:hfail", "handler_fault_fired:keepalive_received", "handler_fault_fired:send_open", "handler_fault_fired:open_received", "switch_with_dead_connection_in_OpenSent", "gen:default_handler_runs", "healed", "stayed_up_3H", "switch_in_IDLE", "switch_in_CONNECT", "switch_in_OPENSENT", "switch_in_OPENCONFIRM",
              "switch_in_ESTABLISHED", "switch_during_close_completion", "ev:open_err6", "ev:open_hold0"]

    def gen_config(self, rng, idx, tier):
        cfg = swarm_config(rng, idx)
        cfg["prefix_len"] = rng.pick([0, 3, 6, 10, 15, 25, 40, 60])
        cfg["max_ops"] = 10 ** 6
        cfg["peer_hold"] = rng.pick([0, 3, 9, 30, 90, 180, 65535])
        cfg["connect_latency"] = rng.pick([0.0, 0.1, 1.0])
        cfg["dead_old_connection"] = rng.chance(0.3)
        cfg["late_cdone"] = rng.chance(0.3)
        cfg["coop_cut"] = rng.pick([None, None, None, None, 1, 19, 30, 45])
        if rng.chance(0.08):
            # an IPv6 peering (local and remote address); the BGP identifier cannot be derived from the address
            cfg["local_addr"], cfg["remote_addr"] = "2001:db8::1", "2001:db8::2"
        if rng.chance(0.35):
            # the application handler raises (storage full) now and then during the adversarial phase
            cfg["p_hfail"] = rng.pick([0.03, 0.08, 0.2])
            cfg["hfail_everywhere"] = False
        if rng.chance(0.12):
            # TCP-MD5 configured; setsockopt(TCP_MD5SIG) fails on single attempts of the adversarial phase
            cfg["md5"] = "s3cr3t"
            cfg["p_sockfail"] = rng.pick([0.05, 0.15, 0.3])
        # bias: unacceptable / unusual OPENs in the prefix (the "poisoned value" class)
        cfg["peer_open"] = base.gen_open(rng, cfg, "valid", hold=cfg["peer_hold"]).hex()
        if rng.chance(0.1):
            cfg["handler"] = "default"
            cfg["write_disk"] = rng.chance(0.7)
            cfg["write_keepalive"] = rng.chance(0.5)
            cfg["rotate_bytes"] = rng.pick([200, 600, 2000])
            if rng.chance(0.5):
                cfg["remote_addr"] = "2001:DB8::2"
        return cfg


# =========================================================================== C18

STAT_KEYS = {rp.OPEN: "Opens", rp.UPDATE: "Updates", rp.NOTIFICATION: "Notifications", rp.KEEPALIVE: "Keepalives",
             rp.ROUTE_REFRESH: "RouteRefresh", rp.CISCO_ROUTE_REFRESH: "RouteRefresh"}


class StatsCtx(FsmCtx):
    escape_is_violation = False
    exceptions_end_run = False
    prop = "C18"
    soft = True
    regime_exit = False

    def __init__(self, cfg, tier):
        FsmCtx.__init__(self, cfg, tier)
        self.rx_counts = {}      # cid -> {key: n} frames of >= minimum length handed to the agent while it was reading
        self.rx_pending = {}
        self.rx_stat_dead = set()
        self.tx_dropped = {}
        self.final_done = False

    def choose(self, rng):
        w = self.world
        if w.exited:
            return None
        n = w.ops_done + w.ops_skipped
        if n >= self.cfg["max_ops"]:
            if not self.final_done:
                self.final_done = True
                return ["rest", "GET", URL + "statistic", "ok"]
            return None
        quiescent = not [c for c in w.reactor.due() if c.time <= w.now()]
        if quiescent and rng.chance(self.cfg["p_stat"]):
            return ["rest", "GET", URL + "statistic", "ok"]
        if self.cfg.get("handler_faults") and rng.chance(0.04):
            return ["hfail", rng.randrange(1, 4)]
        if w.state() == "ESTABLISHED" and self.cfg.get("p_rest_send") and rng.chance(0.04):
            return ["hqueue", rng.pick(["notification", "update", "update", "bad_update"]), rng.randrange(1, 9)]
        if w.state() == "ESTABLISHED" and rng.chance(0.06):
            # one harmless message delivered in several TCP segments (cuts inside and behind the header)
            k = self.cur_k()
            if k is not None and w.live_conns()[k].readable():
                as4 = bool(getattr(w.factory.fsm.protocol, "fourbytesas", False))
                msg = rng.pick([rp.encode_keepalive(), base.gen_update(rng, self.cfg, as4), base.gen_update(rng, self.cfg, as4),
                                rp.encode_route_refresh(1, 1), rp.encode_route_refresh(1, 1, 0, cisco=True)])
                if rng.chance(0.15):
                    # the largest legal message: a withdraw-only UPDATE of exactly 4096 octets
                    wd = ["10.%d.%d.%d/32" % (i // 65536, (i // 256) % 256, i % 256) for i in range(814)]
                    msg = rp.encode_update(wd, {}, [])
                    msg = rp.encode_update(wd + {0: [], 1: ["0.0.0.0/0"], 2: ["11.0.0.0/8"], 3: ["11.1.0.0/16"], 4: ["11.1.1.0/24"]}[4096 - len(msg)], {}, []) \
                        if 0 <= 4096 - len(msg) <= 4 else msg
                    self.stats["gen:maximum_size_message"] += 1
                cuts = sorted(set(rng.randrange(1, len(msg)) for _ in range(rng.randrange(1, 4))))
                self.stats["gen:message_in_several_segments"] += 1
                return ["send", k, msg.hex(), cuts]
        if w.state() == "ESTABLISHED" and self.cfg.get("p_rest_send") and rng.chance(0.03):
            # json_to_bin only converts: nothing is sent, nothing may be counted
            from sim.profiles import restapi
            self.stats["gen:json_to_bin_request"] += 1
            return ["rest", "POST", URL + "json_to_bin", "ok", restapi.RestCtx.body_for(self, rng, "json_to_bin")]
        if w.state() == "ESTABLISHED" and rng.chance(self.cfg.get("p_rest_send", 0)):
            # operator-originated messages: sent counters must follow them too
            from sim.profiles import restapi
            if rng.chance(0.5):
                body = restapi.RestCtx.body_for(self, rng, "send/update")
                if isinstance(body, dict) and body.get("attr") and rng.chance(0.2):
                    # a request the encoder cannot build: must be refused and must not be counted
                    bad = rng.pick(["nexthop6", "prefix33", "aspath", "origin"])
                    if bad == "nexthop6":
                        body["attr"]["3"] = "fe80::1"
                    elif bad == "prefix33":
                        body["nlri"] = ["10.0.0.0/33"]
                    elif bad == "aspath":
                        body["attr"]["2"] = [[2, ["x"]]]
                    else:
                        body["attr"]["1"] = "igp"
                    self.stats["gen:unencodable_rest_update"] += 1
                return ["rest", "POST", URL + "send/update", "ok", body]
            body = {"afi": rng.pick([1, 1, 2, 2, 25]), "safi": rng.pick([1, 1, 2, 128, 70])}
            fams = base.remote_families()
            if fams and rng.chance(0.6):
                body["afi"], body["safi"] = rng.pick(fams)     # a family the peer did advertise
            if rng.chance(0.6):
                body["res"] = rng.pick([0, 1, 2, 255, 256, -1, None, "x", 1.5])
            return ["rest", "POST", URL + "send/route-refresh", "ok", body]
        if w.state() == "ESTABLISHED" and rng.chance(0.08):
            # several harmless messages in ONE segment (no close can happen inside it, so every frame is
            # attributable): each of them counts
            k = self.cur_k()
            if k is not None and w.live_conns()[k].readable():
                as4 = bool(getattr(w.factory.fsm.protocol, "fourbytesas", False))
                parts = [rng.pick([rp.encode_keepalive(), rp.encode_keepalive(), base.gen_update(rng, self.cfg, as4),
                                   rp.encode_route_refresh(1, 1)]) for _ in range(rng.randrange(2, 5))]
                self.stats["gen:coalesced_harmless_messages"] += 1
                return ["send", k, b"".join(parts).hex(), []]
        if self.cfg["hostile"] and rng.chance(0.25):
            readable = [k for k, c in enumerate(w.live_conns()) if c.readable()]
            if readable:
                from sim.profiles import hostile
                return ["send", rng.pick(readable), hostile.one_hostile_frame(rng, self.cfg).hex(), []]
        return FsmCtx.choose(self, rng)

    def after_step(self, op, pos, evs, labels, toks, handler, cell):
        w = self.world
        # account delivered frames (one frame per chunk in this profile)
        for e in w.log[pos:]:
            if e[2] == "write_dropped":
                # a deferred (REST) write that found its connection already gone: in flight at close
                d = self.tx_dropped.setdefault(e[3], {})
                for f in rp.deframe(bytes.fromhex(e[4]))[0]:
                    if not f.error and f.type == rp.UPDATE:
                        # (only UPDATEs are written by a deferred call; anything else that is counted must
                        # have been written to a connection that still existed)
                        d[STAT_KEYS[f.type]] = d.get(STAT_KEYS[f.type], 0) + 1
                        self.stats["rest_send_lost_in_flight_at_close"] += 1
            if e[2] == "rx":
                cid = e[3]
                if cid in self.rx_stat_dead:
                    continue        # after a framing violation nothing on this connection is attributable
                buf = self.rx_pending.get(cid, b"") + bytes.fromhex(e[4])
                frames, rest = rp.deframe(buf)
                dead = False
                cnt = self.rx_counts.setdefault(cid, {})
                for f in frames:
                    if f.error:
                        dead = True
                        break
                    key = STAT_KEYS[f.type]
                    if f.length >= rp.MIN_LEN[f.type]:
                        cnt[key] = cnt.get(key, 0) + 1
                    else:
                        cnt.setdefault("runt:" + key, 0)
                        cnt["runt:" + key] += 1
                self.rx_pending[cid] = b"" if dead else rest
                if dead:
                    self.rx_stat_dead.add(cid)
        if op[0] == "rest" and op[2].endswith("/statistic") and w.last_rest.get("status") == 200:
            self.compare(cell)

    def compare(self, cell):
        w = self.world
        js = w.last_rest.get("json") or {}
        proto = w.factory.fsm.protocol
        if proto is None or getattr(proto, "transport", None) is None:
            return
        if [c for c in w.reactor.due() if c.time <= w.now() and c.kind == "thread"]:
            return      # a REST send counts before its deferred write runs: not quiescent
        cid = proto.transport.cid
        c = w.conns[cid]
        sent = {}
        for f in rp.deframe(c.written)[0]:
            if not f.error:
                sent[STAT_KEYS[f.type]] = sent.get(STAT_KEYS[f.type], 0) + 1
        self.stats["stat_comparisons"] += 1
        for key in ("Opens", "Updates", "Notifications", "Keepalives", "RouteRefresh"):
            got = (js.get("send") or {}).get(key)
            want = sent.get(key, 0)
            lost = self.tx_dropped.get(cid, {}).get(key, 0)
            if got is not None and want < got <= want + lost:
                continue        # counted at request time, the connection ended before the deferred write ran
            if got != want:
                raise Violation("C18", "sent", "%s/reported-%s-wire-%s" % (key, cmp3(got, want), "n"),
                                "statistic says %s %s sent on the current connection (#%d); its write log holds %d (%s)"
                                % (got, key, cid, want, rp.describe(c.written)))
            if want:
                self.stats["nonzero_sent_" + key] += 1
        rxc = self.rx_counts.get(cid, {})
        for key in ("Opens", "Updates", "Notifications", "Keepalives", "RouteRefresh"):
            got = (js.get("receive") or {}).get(key)
            lo = rxc.get(key, 0)
            hi = lo + rxc.get("runt:" + key, 0)     # frames below the type's minimum length: unconstrained
            if got is None or got < lo or got > hi:
                raise Violation("C18", "received", "%s/reported-%s-wire" % (key, cmp3(got, lo)),
                                "statistic says %s %s received on the current connection (#%d); %d frames of that type "
                                "(>= minimum length) were delivered on it" % (got, key, cid, lo))
            if lo:
                self.stats["nonzero_recv_" + key] += 1


def cmp3(a, b):
    if a is None:
        return "missing"
    return "more-than" if a > b else ("less-than" if a < b else "equal")


class StatsProfile(FsmProfile):
    id = "C18"
    runs = {"quick": 30000, "thorough": 1000000}
    ctx_class = StatsCtx
    rule = ("one run = a C01-style trace (all event orders incl. error paths; in half of the runs also hostile/mutated frames, "
            "one frame per chunk; in some runs operator sends via REST send/update and send/route-refresh with valid and "
            "invalid 'res' values, and application-handler callbacks that raise ENOSPC) with GET statistic at random "
            "quiescent points and at the end; each answer is compared with "
            "the frames by type in the current connection's write log and delivered stream; non-trivial = reached OpenSent; "
            "distinct = distinct cell sequence")
    probes = ["gen:coalesced_harmless_messages", "gen:unencodable_rest_update", "op:hfail", "nonzero_sent_Updates", "nonzero_sent_RouteRefresh", "stat_comparisons", "nonzero_sent_Opens", "nonzero_sent_Keepalives", "nonzero_sent_Notifications",
              "nonzero_recv_Opens", "nonzero_recv_Keepalives", "nonzero_recv_Updates", "nonzero_recv_Notifications",
              "nonzero_recv_RouteRefresh"]

    def gen_config(self, rng, idx, tier):
        cfg = swarm_config(rng, idx)
        cfg["p_stat"] = rng.pick([0.05, 0.15, 0.3])
        cfg["hostile"] = bool(idx % 2)
        cfg["handler_faults"] = rng.chance(0.3)
        cfg["p_rest_send"] = rng.pick([0, 0.1, 0.3])
        cfg["p_extra_family"] = rng.pick([0.15, 0.5])
        return cfg


CONN = ConnProfile()
STOP = StopProfile()
HEAL = HealProfile()
STATS = StatsProfile()
