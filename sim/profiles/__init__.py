"""Profile registry: property id -> profile object."""
import importlib

_MODULES = {
    "C01": "sim.profiles.fsm",
}


def get(prop):
    if prop not in _MODULES:
        raise KeyError("no profile for property %s" % prop)
    return importlib.import_module(_MODULES[prop]).PROFILE


def ids():
    return sorted(_MODULES)
