"""Profile registry: property id -> profile object."""
import importlib

_MODULES = {
    "C01": ("sim.profiles.fsm", "PROFILE"),
    "C02": ("sim.profiles.lifecycle", "HEAL"),
    "C03": ("sim.profiles.timers", "PROFILE"),
    "C04": ("sim.profiles.framing", "PROFILE"),
    "C05": ("sim.profiles.openpolicy", "PROFILE"),
    "C10": ("sim.profiles.hostile", "PROFILE"),
    "C12": ("sim.profiles.lifecycle", "CONN"),
    "C13": ("sim.profiles.lifecycle", "STOP"),
    "C16": ("sim.profiles.restapi", "PROFILE"),
    "C18": ("sim.profiles.lifecycle", "STATS"),
    "C20": ("sim.profiles.logsim", "PROFILE"),
    "C19": ("sim.profiles.rib", "PROFILE"),
}


def get(prop):
    if prop not in _MODULES:
        raise KeyError("no profile for property %s" % prop)
    mod, attr = _MODULES[prop]
    return getattr(importlib.import_module(mod), attr)


def ids():
    return sorted(_MODULES)
