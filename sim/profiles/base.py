"""Shared machinery of the session profiles: context object around one World, extraction of
observable output tokens from the World's event log, message generators for the peer."""
import collections
import hashlib
import json

from sim import refpeer as rp
from sim.engine import Violation
from sim.world import World, DEFAULT_CFG

PEER = "10.0.0.2"
URL = "/v1/peer/%s/" % PEER


class BaseProfile(object):
    id = None
    level = "exploration"
    runs = {"quick": 1000, "thorough": 10000}
    rule = ""
    probes = []
    assumptions = [
        "Twisted is replaced by the simulator (virtual-time reactor, connector, transport) written "
        "against Twisted 20.3's documented contract (DESIGN.md appendix B); real Twisted is not installable here",
        "reactor callbacks and REST views run atomically and interleave only at event boundaries",
        "the reference peer codec and the RFC 4271 profile model are trusted (independent of yabgp's code)",
    ]
    components = {
        "real": ["yabgp.core.fsm/protocol/factory/timer", "yabgp.message.*", "yabgp.api.* (Flask app via WSGI test client)",
                 "yabgp.config", "yabgp.agent.prepare_twisted_service", "oslo.config", "netaddr", "Flask/Werkzeug/Flask-HTTPAuth"],
        "stand_in": ["twisted.internet.reactor/protocol/error (= the simulator)", "twisted.web.server/wsgi",
                     "radix (dict-backed)", "simplejson (stdlib json)", "remote BGP router (sim.refpeer)",
                     "kernel TCP, wall clock, REST thread pool"],
    }

    def default_config(self):
        return dict(DEFAULT_CFG)

    def config_diff(self, cfg):
        d = self.default_config()
        return {k: cfg[k] for k in sorted(cfg) if d.get(k, None) != cfg[k]}


def normalise_close_order(toks):
    """loseConnection() followed by a write on the same connection in the same callback puts the same
    bytes on the wire as the other order (Twisted flushes before it closes): normalise to write-then-close."""
    out = []
    for i, t in enumerate(toks):
        if t[0] == "lose" and any(u[0] == "tx" and u[1] == t[1] for u in toks[i + 1:]):
            continue
        out.append(t)
        if t[0] == "tx":
            later_tx = any(u[0] == "tx" and u[1] == t[1] for u in toks[i + 1:])
            if not later_tx and any(u[0] == "lose" and u[1] == t[1] for u in toks[:i]) and ("lose", t[1]) not in out:
                out.append(("lose", t[1]))
    return out


class BaseCtx(object):
    prop = None

    def __init__(self, cfg, tier):
        self.cfg = cfg
        self.tier = tier
        self.stats = collections.Counter()
        self.cells = set()
        self.trace = []
        self.nontrivial = False
        if cfg.get("handler") == "default":
            # the real DefaultHandler (message log on a simulated file system) instead of the recording one
            from sim import simfs
            self.fs = simfs.SimFS()
            self.world = World(cfg, fs=self.fs)
        else:
            self.world = World(cfg)
        self.pos = len(self.world.log)
        self.tx_off = {}
        self.done = False
        self.t0 = self.world.now()

    # ---- engine interface
    def trace_hash(self):
        return hashlib.sha256(json.dumps(self.trace, default=repr).encode()).hexdigest()[:16]

    def digest(self):
        return self.world.digest()

    def sim_time(self):
        return self.world.now() - self.t0

    def nops(self):
        return self.world.ops_done

    def nskipped(self):
        return self.world.ops_skipped

    def finish(self):
        pass

    # ---- observation
    def observe(self, pos):
        """Output tokens and escapes recorded in the world log since position pos."""
        w = self.world
        toks = []
        escapes = []
        handler = []
        for e in w.log[pos:]:
            kind = e[2]
            if kind == "connect":
                toks.append(("connect", e[3]))
            elif kind == "stop_connecting":
                toks.append(("abort", e[3]))
            elif kind == "write":
                cid = e[3]
                c = w.conns[cid]
                off = self.tx_off.get(cid, 0)
                # bytes of this write only
                end = off + len(e[4]) // 2
                frames, rest = rp.deframe(c.written[off:end])
                bad = [f for f in frames if f.error]
                if bad or rest:
                    raise Violation(self.prop, "tx-framing", "agent-wrote-non-frame",
                                    "agent wrote bytes that are not whole valid BGP frames on connection %d: %s"
                                    % (cid, c.written[off:end].hex()[:120]))
                self.tx_off[cid] = end
                for f in frames:
                    toks.append(("tx", cid, self.tx_token(f)))
            elif kind == "lose":
                toks.append(("lose", e[3]))
            elif kind == "h":
                if e[3] == "on_established":
                    toks.append(("estab",))
                handler.append(e[3:])
            elif kind in ("exc", "budget", "exit"):
                escapes.append(e[2:])
            elif kind == "write_dropped":
                self.stats["write_to_closed_transport"] += 1
        n = len(toks)
        toks = normalise_close_order(toks)
        return toks, escapes, handler

    @staticmethod
    def tx_token(f):
        if f.type == rp.NOTIFICATION:
            if len(f.body) < 2:
                return ("NOTIF", -1, -1)
            return ("NOTIF", f.body[0], f.body[1])
        return rp.TYPE_NAMES[f.type]

    escape_is_violation = True

    exceptions_end_run = True     # False: a plain exception that escapes into the reactor is logged there and
                                  # the run goes on (the oracle's invariants still apply)

    def check_escapes(self, escapes, cell):
        if escapes and not self.escape_is_violation and not self.exceptions_end_run \
                and all(e[0] == "exc" for e in escapes):
            self.stats["exception_escaped_into_reactor(run continues)"] += len(escapes)
            return
        if escapes and not self.escape_is_violation:
            # an exception / endless loop / exit escaping from the agent is C10's (and C01's, C04's)
            # subject; here the run simply cannot be judged any further
            self.done = True
            self.stats["run_ended_by_escape(not judged here)"] += 1
            return
        if escapes:
            e = escapes[0]
            what = {"exc": "exception", "budget": "step-budget", "exit": "SystemExit"}[e[0]]
            where = str(e[1]).split(":")[0]
            raise Violation(self.prop, "escape", "%s/%s/%s" % (cell, what, where),
                            "%s escaped from %s: %r" % (what, e[1], e[2:]))


# ------------------------------------------------------------------------- peer message generators

HOLDS = [0, 3, 4, 9, 30, 90, 180, 65535]


def peer_caps(rng, cfg, full=False):
    caps = []
    if full or rng.chance(0.8):
        caps.append(rp.cap_mp(1, 1))
    if full or rng.chance(0.6):
        caps.append(rp.cap_rr())
    if rng.chance(0.3):
        caps.append(rp.cap_rr_cisco())
    if full or rng.chance(0.6) or cfg["remote_as"] > 65535:
        caps.append(rp.cap_as4(cfg["remote_as"]))
    if rng.chance(cfg.get("p_extra_family", 0.15)):
        # a further address family, possibly one yabgp has no name for (legal: RFC 4760 capability per family)
        caps.append(rp.cap_mp(*rng.pick([(2, 1), (2, 2), (1, 2), (2, 128), (25, 70), (1, 4), (16388, 71)])))
    if rng.chance(0.2):
        caps.append(rp.cap_gr(120))
    if rng.chance(0.1):
        # a capability yabgp has no branch for, with a value that is not text (e.g. ORF, RFC 5291)
        caps.append((rng.pick([3, 66, 67, 71, 73]), bytes(rng.pick([0x00, 0x01, 0x80, 0xff, 0xc3]) for _ in range(rng.randrange(0, 8)))))
    if rng.chance(0.2):
        caps.append(rp.cap_err())
    return caps


def remote_families():
    """Generator-side peek: the <AFI,SAFI> pairs the agent currently believes the peer advertised."""
    try:
        from oslo_config import cfg as ocfg
        fams = ocfg.CONF.bgp.running_config["capability"]["remote"].get("afi_safi") or []
        return [(int(a), int(b)) for a, b in fams]
    except Exception:
        return []


def gen_open(rng, cfg, variant="valid", hold=None):
    """-> bytes of an OPEN the peer could send."""
    asn = cfg["remote_as"]
    if hold is None:
        hold = rng.pick(HOLDS) if rng.chance(0.8) else rng.randrange(3, 65536)
    version = 4
    caps = peer_caps(rng, cfg)
    if variant == "badver":
        version = rng.pick([3, 5, 0, 255])
    elif variant == "badas":
        asn = rng.pick([a for a in (1, 64512, 65535, 65536, 4200000000, (asn % 65000) + 1) if a != cfg["remote_as"]])
        caps = [c for c in caps if c[0] != 65]
        if asn > 65535 or rng.chance(0.5):
            caps.append(rp.cap_as4(asn))
    elif variant == "hold1":
        hold = 1
    elif variant == "hold2":
        hold = 2
    elif variant == "hold0":
        hold = 0
    field = None
    if variant in ("valid", "hold0") and rng.chance(0.08):
        # the 4-octet value of capability 65 is the peer's AS even when the 2-octet field says otherwise
        caps = [c for c in caps if c[0] != 65] + [rp.cap_as4(asn)]
        field = rng.pick([a for a in (1, 64512, 65535, 23456, 100) if a != asn])
    elif variant == "badas" and asn != cfg["remote_as"] and cfg["remote_as"] <= 65535 and rng.chance(0.3):
        caps = [c for c in caps if c[0] != 65] + [rp.cap_as4(asn)]
        field = cfg["remote_as"]
    return rp.encode_open(asn, hold, "2.2.2.%d" % rng.randrange(1, 255), caps, version=version,
                          one_param_each=rng.chance(0.5), my_as_field=field)


PREFIX_POOL = ["10.1.0.0/16", "10.2.3.0/24", "192.168.0.0/17", "172.16.5.4/32", "0.0.0.0/0", "100.64.0.0/10"]


KNOWN_FAMILIES = [(2, 1), (1, 128), (2, 128), (1, 133), (25, 70), (16388, 71), (1, 4), (1, 73)]


def gen_update(rng, cfg, as4):
    if rng.chance(0.06):
        # End-of-RIB marker of a multiprotocol family yabgp knows (RFC 4724): an UPDATE whose only content is an
        # MP_UNREACH_NLRI without routes
        return rp.encode_update(raw_attrs=rp.mp_unreach(*rng.pick(KNOWN_FAMILIES), b""))
    nl = [rng.pick(PREFIX_POOL) for _ in range(rng.randrange(0, 3))]
    wd = [rng.pick(PREFIX_POOL) for _ in range(rng.randrange(0, 2))] if rng.chance(0.4) else []
    attrs = {}
    if nl:
        attrs = {"origin": rng.randrange(3), "as_path": [(2, [cfg["remote_as"] if cfg["remote_as"] <= 65535 or as4 else 23456,
                                                              rng.randrange(1, 65000)])],
                 "next_hop": "10.0.0.2"}
        if rng.chance(0.5):
            attrs["med"] = rng.randrange(0, 1000)
        if cfg["remote_as"] == cfg["local_as"]:
            attrs["local_pref"] = 100
        if rng.chance(0.3):
            attrs["communities"] = [rng.randrange(1, 2 ** 32 - 1)]
    return rp.encode_update(wd, attrs, nl, as4=as4)


NOTIFS = [(2, 1), (6, 2), (6, 4), (4, 0), (1, 1), (3, 1), (5, 0), (2, 2), (6, 0), (9, 9)]


def gen_notif(rng, version_error=None):
    if version_error is None:
        version_error = rng.chance(0.3)
    if version_error:
        return rp.encode_notification(2, 1, b"\x00\x04" if rng.chance(0.5) else b"")
    code, sub = rng.pick(NOTIFS[1:])
    if rng.chance(0.35):
        # every error code the RFCs define (1-6 RFC 4271, 7 RFC 5492/7313, 8 RFC 8538...) and unknown ones, any subcode
        code = rng.pick([1, 2, 3, 4, 5, 6, 7, 7, 8, 0, 200])
        sub = rng.pick([0, 1, 2, 3, 4, 7, 8, 11, 255])
        if (code, sub) == (2, 1):
            sub = 2
    data = bytes(rng.randrange(256) for _ in range(rng.randrange(0, 4)))
    if code == 6 and sub in (2, 4) and rng.chance(0.5):
        # RFC 8203 shutdown communication: length octet + text, not necessarily valid UTF-8
        txt = rng.pick([b"maintenance", "wartung f\u00fcr heute".encode("latin-1"), "\u7ef4\u62a4".encode("utf-8")[:4], b""])
        data = bytes([len(txt)]) + txt
    return rp.encode_notification(code, sub, data)


def gen_rr(rng):
    # (the reserved octet carries the RFC 7313 subtype: 0 request, 1 BoRR, 2 EoRR, anything else is to be ignored)
    return rp.encode_route_refresh(rng.pick([1, 2]), rng.pick([1, 128, 133]), rng.pick([0, 0, 0, 1, 2, 3, 255]), cisco=rng.chance(0.4))


def gen_bad_marker(rng):
    base = bytearray(rng.pick([rp.encode_keepalive(), rp.encode_notification(6, 2),
                               rp.encode_route_refresh(1, 1)]))
    i = rng.randrange(16)
    base[i] ^= 1 << rng.randrange(8)
    return bytes(base)


def gen_bad_len(rng):
    if rng.chance(0.2):
        # type-specific rules of RFC 4271 6.1: KEEPALIVE longer than 19, OPEN shorter than 29
        if rng.chance(0.5):
            n = rng.pick([1, 2, 4, 30])
            return rp.frame(rp.KEEPALIVE, bytes(rng.randrange(256) for _ in range(n)))
        n = rng.randrange(0, 10)
        return rp.frame(rp.OPEN, bytes([4, 0, 1, 0, 90, 1, 1, 1, 1, 0])[:n])
    length = rng.pick([0, 1, 18, 4097, 65535, rng.randrange(0, 19), rng.randrange(4097, 65536)])
    mtype = rng.pick([1, 2, 3, 4, 5])
    body = bytes(rng.randrange(256) for _ in range(rng.pick([0, 0, 4, 23])))
    return rp.frame(mtype, body, length=length)


def gen_bad_type(rng):
    mtype = rng.pick([0, 6, 7, 127, 129, 255, rng.pick([t for t in range(256) if t not in rp.KNOWN_TYPES])])
    n = rng.pick([0, 0, 4])
    return rp.frame(mtype, bytes(n))


def classify_open(body):
    """OPEN body -> info dict for the model."""
    try:
        m = rp.decode_open(body)
    except ValueError:
        info = {"malformed": True, "version": body[0] if body else None, "true_as": None, "hold": None}
        if len(body) >= 5:
            info["hold"] = int.from_bytes(body[3:5], "big")
            info["true_as"] = int.from_bytes(body[1:3], "big")
        return info
    return {"version": m.version, "true_as": m.true_as, "hold": m.hold, "as4": any(c == 65 for c, _ in m.caps),
            "caps": m.cap_codes()}


def classify_frame(f):
    """Reference frame -> (kind, info, label) for the model."""
    if f.error:
        return ("bad_" + {"marker": "marker", "length": "len", "type": "type"}[f.error[0]], None,
                "bad_" + f.error[0])
    if f.type == rp.OPEN:
        info = classify_open(f.body)
        return ("open", info, None)
    if f.type == rp.UPDATE:
        return ("update", None, "update")
    if f.type == rp.KEEPALIVE:
        return ("keepalive", None, "keepalive")
    if f.type == rp.NOTIFICATION:
        code = f.body[0] if len(f.body) > 0 else -1
        sub = f.body[1] if len(f.body) > 1 else -1
        return ("notif", {"code": code, "sub": sub}, "notif(2,1)" if (code, sub) == (2, 1) else "notif(other)")
    return ("rr", None, "rr")


def max_size_update():
    """The largest legal message: a withdraw-only UPDATE of exactly 4096 octets."""
    wd = ["10.%d.%d.%d/32" % (i // 65536, (i // 256) % 256, i % 256) for i in range(814)]
    msg = rp.encode_update(wd, {}, [])
    pad = {0: [], 1: ["0.0.0.0/0"], 2: ["11.0.0.0/8"], 3: ["11.1.0.0/16"], 4: ["11.1.1.0/24"]}
    if 0 <= 4096 - len(msg) <= 4:
        msg = rp.encode_update(wd + pad[4096 - len(msg)], {}, [])
    return msg
