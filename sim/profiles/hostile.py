"""Profile `hostile` (C10): whatever bytes a peer sends in any session state are contained.

Workload: a burst of mutated / structure-aware random frames (seeded from every bytes literal in
yabgp/tests/**.py, harvested by AST scan at run time, and from the reference encoder) in
OpenSent/OpenConfirm/Established, followed by known-good messages; a control run delivers only
the known-good tail from the same state.
"""
import ast
import collections
import hashlib
import json
import os
import struct

from sim import bootstrap
from sim import refpeer as rp
from sim.engine import Violation
from sim.world import World
from sim.profiles import base
from sim.profiles.base import BaseProfile
from sim.profiles.fsm import swarm_config
from sim.profiles.framing import reach_ops, STATES

_CORPUS = None
REPORTS = ("on_update_error", "update_received", "keepalive_received", "open_received",
           "route_refresh_received", "notification_received")


def corpus():
    """Every bytes literal (>= 4 octets) in the repository's unit tests, in a fixed order."""
    global _CORPUS
    if _CORPUS is not None:
        return _CORPUS
    root = os.path.join(bootstrap.repo_path(), "yabgp", "tests")
    out = []
    seen = set()
    for dirpath, dirnames, filenames in sorted(os.walk(root)):
        dirnames.sort()
        for fn in sorted(filenames):
            if not fn.endswith(".py"):
                continue
            try:
                with open(os.path.join(dirpath, fn), "rb") as fh:
                    tree = ast.parse(fh.read())
            except (SyntaxError, ValueError, OSError):
                continue
            for node in ast.walk(tree):
                if isinstance(node, ast.Constant) and isinstance(node.value, bytes) and len(node.value) >= 4:
                    if node.value not in seen:
                        seen.add(node.value)
                        out.append((getattr(node, "lineno", 0), fn, node.value))
    out.sort(key=lambda x: (x[1], x[0], x[2]))
    _CORPUS = [v for _, _, v in out]
    if not _CORPUS:
        _CORPUS = [b"\x00\x00\x00\x00"]
    return _CORPUS


def mutate(rng, data):
    data = bytearray(data)
    for _ in range(rng.pick([1, 1, 2, 3])):
        if not data:
            data = bytearray(b"\x00")
        kind = rng.pick(["flip", "set", "trunc", "extend", "len", "dup", "splice", "zero"])
        i = rng.randrange(len(data))
        if kind == "flip":
            data[i] ^= 1 << rng.randrange(8)
        elif kind == "set":
            data[i] = rng.pick([0, 1, 0x7F, 0x80, 0xFF, rng.randrange(256)])
        elif kind == "trunc":
            del data[i:]
        elif kind == "extend":
            data.extend(bytes(rng.randrange(256) for _ in range(rng.randrange(1, 20))))
        elif kind == "len":
            v = rng.pick([0, 1, 2, 0xFF, 0x100, 0xFFFF, len(data), rng.randrange(0, 300)])
            if i + 1 < len(data) and rng.chance(0.5):
                data[i:i + 2] = struct.pack("!H", v & 0xFFFF)
            else:
                data[i] = v & 0xFF
        elif kind == "dup":
            j = rng.randrange(i, min(len(data), i + 40) + 1)
            data[i:i] = data[i:j]
        elif kind == "splice":
            other = rng.pick(corpus())
            j = rng.randrange(len(other))
            data[i:] = other[j:]
        elif kind == "zero":
            for k in range(i, min(len(data), i + rng.randrange(1, 8))):
                data[k] = 0
    return bytes(data[:4070])


ATTR_CODES = [1, 2, 3, 4, 5, 6, 7, 8, 9, 10, 14, 15, 16, 17, 18, 22, 23, 29, 32, 40, 128, 255]


LS_TLV_TYPES = (list(range(256, 268)) + list(range(512, 519)) + list(range(1024, 1045)) + list(range(1088, 1123))
                + list(range(1152, 1175)) + list(range(1200, 1203)) + list(range(1250, 1253)) + [0, 1, 65535])
MP_FAMILIES = [(1, 1), (1, 2), (2, 1), (1, 4), (2, 4), (1, 133), (1, 128), (2, 128), (25, 70), (16388, 71), (16388, 72),
               (1, 73), (2, 133), (2, 73), (1, 5), (9, 9)]


def rand_bytes(rng, n):
    return bytes(rng.randrange(256) for _ in range(n))


def tlv_stream(rng, tsize, lsize, types, depth=0):
    """A sequence of TLVs with consistent lengths and arbitrary (or nested) values."""
    out = b""
    for _ in range(rng.randrange(1, 4)):
        t = rng.pick(types)
        if depth < 1 and rng.chance(0.3):
            v = tlv_stream(rng, tsize, lsize, types, depth + 1)
        else:
            v = rand_bytes(rng, rng.pick([0, 1, 2, 3, 4, 5, 6, 7, 8, 9, 10, 11, 12, 13, 14, 15, 16, 20, 32]))
        ln = len(v) if rng.chance(0.9) else rng.pick([0, 1, len(v) + 1, 255])
        out += t.to_bytes(tsize, "big") + (ln & ((1 << (8 * lsize)) - 1)).to_bytes(lsize, "big") + v
    return out


def structured_update(rng, cfg):
    """Structure-aware UPDATE bodies for the attribute families with nested TLV / NLRI decoders."""
    kind = rng.pick(["linkstate", "linkstate", "prefix_sid", "tunnel", "mp_reach", "mp_reach", "mp_unreach", "extcomm",
                     "aspath", "pmsi", "largecomm"])
    base_attrs = rp.encode_attrs({"origin": 0, "as_path": [(2, [cfg["remote_as"] & 0xFFFF or 1])], "next_hop": "10.0.0.2"}, False)
    if kind == "linkstate":
        a = rp.attr_tlv(0x80, 29, tlv_stream(rng, 2, 2, LS_TLV_TYPES))
    elif kind == "prefix_sid":
        a = rp.attr_tlv(0xC0, 40, tlv_stream(rng, 1, 2, [1, 2, 3, 4, 5, 6, 0, 255]))
    elif kind == "tunnel":
        inner = tlv_stream(rng, 1, rng.pick([1, 2]), [1, 4, 6, 7, 8, 9, 12, 13, 128, 129, 130, 0, 255])
        a = rp.attr_tlv(0xC0, 23, struct.pack("!HH", rng.pick([15, 8, 0, 65535]), len(inner) if rng.chance(0.9) else rng.randrange(0, 300)) + inner)
    elif kind in ("mp_reach", "mp_unreach"):
        afi, safi = rng.pick(MP_FAMILIES)
        nlri = rng.pick([rand_bytes(rng, rng.randrange(0, 40)), tlv_stream(rng, 2, 2, [1, 2, 3, 4, 5, 6, 256, 257, 264, 265]),
                         bytes([rng.randrange(1, 6), rng.randrange(0, 40)]) + rand_bytes(rng, rng.randrange(0, 40)),
                         rng.pick(corpus())[:200]])
        if kind == "mp_reach":
            nh = rng.pick([b"", rand_bytes(rng, 4), rand_bytes(rng, 12), rand_bytes(rng, 16), rand_bytes(rng, 24), rand_bytes(rng, 32)])
            nhl = len(nh) if rng.chance(0.9) else rng.randrange(0, 256)
            a = rp.attr_tlv(0x80, 14, struct.pack("!HBB", afi, safi, nhl) + nh + b"\x00" + nlri)
        else:
            a = rp.attr_tlv(0x80, 15, struct.pack("!HB", afi, safi) + nlri)
    elif kind == "extcomm":
        a = rp.attr_tlv(0xC0, 16, b"".join(bytes([rng.pick([0, 1, 2, 3, 6, 8, 0x40, 0x43, 0x80, 0x81, 255]), rng.randrange(256)]) + rand_bytes(rng, 6)
                                          for _ in range(rng.randrange(0, 4))) + rand_bytes(rng, rng.pick([0, 0, 0, 1, 7])))
    elif kind == "aspath":
        a = rp.attr_tlv(0x40, rng.pick([2, 17]), b"".join(bytes([rng.pick([1, 2, 3, 4, 0, 5]), rng.pick([0, 1, 2, 255])]) + rand_bytes(rng, rng.pick([0, 2, 4, 8]))
                                                         for _ in range(rng.randrange(1, 4))))
        base_attrs = b""
    elif kind == "pmsi":
        a = rp.attr_tlv(0xC0, 22, rand_bytes(rng, rng.pick([0, 1, 5, 9, 13, 21])))
    else:
        a = rp.attr_tlv(0xC0, 32, rand_bytes(rng, rng.pick([0, 11, 12, 13, 24])))
    attrs = (base_attrs + a) if rng.chance(0.7) else a
    return struct.pack("!H", 0) + struct.pack("!H", len(attrs)) + attrs


def structured_open(rng, cfg):
    """OPEN whose capabilities are structurally valid TLVs with arbitrary / unusual contents."""
    caps = []
    for _ in range(rng.randrange(1, 6)):
        code = rng.pick([1, 2, 5, 64, 65, 67, 69, 69, 70, 71, 71, 73, 128, 131, 0, 255, rng.randrange(256)])
        if code == 69:      # ADD-PATH: <AFI, SAFI, send/receive> entries, known and unknown families
            val = b"".join(struct.pack("!HBB", rng.pick([1, 2, 25, 16388, 3, 0]), rng.pick([1, 2, 4, 128, 133, 70, 71, 0]),
                                       rng.pick([0, 1, 2, 3, 4])) for _ in range(rng.randrange(0, 4)))
            if rng.chance(0.2):
                val += rand_bytes(rng, rng.randrange(1, 4))
        elif code == 71:    # LLGR: <AFI, SAFI, flags, 24-bit time>
            val = b"".join(struct.pack("!HBB", rng.pick([1, 2]), rng.pick([1, 128]), rng.randrange(256)) + rand_bytes(rng, 3)
                           for _ in range(rng.randrange(0, 3))) + rand_bytes(rng, rng.pick([0, 0, 1, 6]))
        elif code == 5:     # extended next hop: <AFI, SAFI(2), next-hop AFI> 6-octet entries
            val = b"".join(struct.pack("!HHH", rng.pick([1, 2]), rng.pick([1, 128, 4]), rng.pick([1, 2]))
                           for _ in range(rng.randrange(0, 3))) + rand_bytes(rng, rng.pick([0, 0, 1, 5]))
        elif code == 1:
            val = rng.pick([struct.pack("!HBB", rng.pick([1, 2, 25, 9999]), 0, rng.pick([1, 128, 70, 250])), rand_bytes(rng, rng.randrange(0, 7))])
        elif code == 65:
            val = rng.pick([struct.pack("!I", cfg["remote_as"]), rand_bytes(rng, rng.randrange(0, 6))])
        elif code == 64:
            val = struct.pack("!H", rng.randrange(65536)) + b"".join(struct.pack("!HBB", 1, 1, 0x80) for _ in range(rng.randrange(0, 3)))
        else:
            val = rand_bytes(rng, rng.pick([0, 0, 1, 2, 4, 8, 40]))
        caps.append((code, val[:250]))
    asn = cfg["remote_as"]
    field = asn if asn <= 65535 else 23456
    opt = rp.encode_caps(caps, one_param_each=rng.chance(0.5))
    if rng.chance(0.1):
        opt = bytes([rng.pick([1, 3, 255]), 2, 0, 0]) + opt       # a non-capability optional parameter
    body = struct.pack("!BHH", 4, field, rng.pick([0, 3, 90, 180])) + bytes([2, 2, 2, 2]) + bytes([len(opt) & 0xFF]) + opt
    return body


def one_hostile_frame(rng, cfg):
    """One frame for the burst; usually well-framed (correct header) with a hostile body."""
    r = rng.random()
    as4 = True
    if r < 0.08:
        mtype = rp.OPEN
        body = structured_open(rng, cfg)
        if rng.chance(0.15):
            body = mutate(rng, body)
    elif r < 0.3:
        mtype = rp.UPDATE
        body = structured_update(rng, cfg)
        if rng.chance(0.2):
            body = mutate(rng, body)
    elif r < 0.55:
        lit = rng.pick(corpus())
        if lit[:16] == rp.MARKER and len(lit) >= 19:
            body = lit[19:]
            mtype = lit[18]
        else:
            mtype = rp.UPDATE
            shape = rng.pick(["body", "attr", "attr", "nlri"])
            if shape == "body":
                body = lit
            elif shape == "attr":
                a = rp.attr_tlv(rng.pick([0x40, 0x80, 0xC0, 0x90, 0xE0, 0x00]), rng.pick(ATTR_CODES), lit[:3000])
                if rng.chance(0.5):
                    a = rp.encode_attrs({"origin": 0, "as_path": [(2, [cfg["remote_as"] & 0xFFFF])], "next_hop": "10.0.0.2"}, False) + a
                body = struct.pack("!H", 0) + struct.pack("!H", len(a)) + a
            else:
                a = rp.encode_attrs({"origin": 0, "as_path": [(2, [1])], "next_hop": "10.0.0.2"}, False)
                body = struct.pack("!H", 0) + struct.pack("!H", len(a)) + a + lit[:200]
        if rng.chance(0.7):
            body = mutate(rng, body)
    elif r < 0.8:
        good = rng.pick([base.gen_update(rng, cfg, as4), base.gen_update(rng, cfg, False),
                         base.gen_open(rng, cfg, "valid"), base.gen_notif(rng), base.gen_rr(rng),
                         rp.encode_keepalive()])
        mtype = good[18]
        body = mutate(rng, good[19:])
    elif r < 0.92:
        mtype = rng.pick([1, 2, 2, 2, 3, 4, 5, 128])
        body = bytes(rng.randrange(256) for _ in range(rng.pick([0, 1, 2, 3, 4, 5, 10, 30, 100, 1000, 4077])))
    else:
        # attribute duplication / absurd lengths inside an otherwise valid UPDATE
        a = rp.encode_attrs({"origin": 0, "as_path": [(2, [1, 2, 3])], "next_hop": "10.0.0.2"}, False)
        a = a + a[:rng.randrange(len(a) + 1)]
        wl = rng.pick([0, 0, 1, 0xFFFF, len(a)])
        al = rng.pick([len(a), len(a), 0, 1, 0xFFFF, len(a) + 1, len(a) - 1])
        mtype = rp.UPDATE
        body = struct.pack("!H", wl) + struct.pack("!H", al & 0xFFFF) + a + rp.encode_prefix("10.9.0.0/16")
    body = body[:4077]
    if rng.chance(0.06):
        return rp.frame(mtype, body, length=rng.pick([0, 18, 19, 4097, 65535, len(body) + 19 + rng.pick([-2, -1, 1, 2])]))
    return rp.frame(mtype, body)


def good_tail(rng, cfg, as4, ambiguous=False):
    out = []
    for _ in range(rng.randrange(1, 4)):
        k = rng.pick(["update", "update", "keepalive", "rr"])
        if k == "update":
            nl = [rng.pick(base.PREFIX_POOL) for _ in range(rng.randrange(1, 3))]
            second = 64999
            if ambiguous and as4:
                # a 4-octet AS number whose bytes, read with 2-octet AS numbers, are a further AS_PATH
                # segment (02 01 xx xx): the same attribute bytes are well formed under both widths
                second = 0x02010000 | rng.randrange(1, 65536)
            attrs = {"origin": rng.randrange(3), "as_path": [(2, [cfg["remote_as"] if (as4 or cfg["remote_as"] <= 65535) else 23456, second])],
                     "next_hop": "10.0.0.2", "med": rng.randrange(100)}
            if cfg["remote_as"] == cfg["local_as"]:
                attrs["local_pref"] = 100
            out.append(rp.encode_update([], attrs, nl, as4=as4))
        elif k == "keepalive":
            out.append(rp.encode_keepalive())
        else:
            out.append(rp.encode_route_refresh(1, 1))
    return out


def drain_now(w):
    """Run every call that is due at the current virtual instant (zero-delay timers, deferred
    writes): the reactor's next turn(s), without letting time pass."""
    n = 0
    while n < 20:
        due = [c for c in w.reactor.due() if c.time <= w.now()]
        if not due:
            break
        w.apply(["fire", 0])
        n += 1


def reports_in(w, pos):
    return [list(e[3:]) for e in w.log[pos:] if e[2] == "h" and e[3] in REPORTS]


class HostileCtx(object):
    prop = "C10"

    def __init__(self, cfg, tier):
        self.cfg = cfg
        self.tier = tier
        self.stats = collections.Counter()
        self.cells = set()
        self.trace = []
        self.nontrivial = False
        self.emitted = False
        self._digest = hashlib.sha256()
        self._sim = 0.0
        self._nops = 0
        self._nskip = 0

    def trace_hash(self):
        return hashlib.sha256(json.dumps(self.trace).encode()).hexdigest()[:16]

    def digest(self):
        return self._digest.hexdigest()

    def sim_time(self):
        return self._sim

    def nops(self):
        return self._nops

    def nskipped(self):
        return self._nskip

    def finish(self):
        pass

    def choose(self, rng):
        if self.emitted:
            return None
        self.emitted = True
        cfg = self.cfg
        state = rng.pick(STATES + ["Established", "Established"])
        n = rng.randrange(1, 5)
        frames = [one_hostile_frame(rng, cfg).hex() for _ in range(n)]
        as4 = peer_as4(cfg) and agent_as4(cfg)
        tail = [t.hex() for t in good_tail(rng, cfg, as4, ambiguous=rng.chance(0.5))]
        if rng.chance(0.4):
            # a known-good message of the tail, sent early as part of the burst (hostile by its moment,
            # not by its bytes)
            frames.insert(rng.randrange(len(frames) + 1), rng.pick(tail))
        if rng.chance(0.25):
            # the peer sends one of its frames a second time later in the burst (a re-sent table, a stuck sender)
            frames.insert(rng.randrange(1, len(frames) + 1), rng.pick(frames))
        coalesce = rng.chance(0.25)
        return ["hostile", state, frames, tail, coalesce]

    # ------------------------------------------------------------------
    def account(self, w):
        self._digest.update(w.digest().encode())
        self._sim += w.now()
        self._nops += w.ops_done
        self._nskip += w.ops_skipped

    def step(self, op):
        if op[0] != "hostile":
            return
        _, state, frames_hex, tail_hex, coalesce = op
        cfg = self.cfg
        want = {"OpenSent": "OPENSENT", "OpenConfirm": "OPENCONFIRM", "Established": "ESTABLISHED"}[state]
        # ---- control run: known-good tail only
        wc = World(cfg)
        for o in reach_ops(cfg, state):
            wc.apply(o)
        if cfg.get("hqueue"):
            wc.apply(["hqueue"] + list(cfg["hqueue"]))
        if wc.state() != want:
            self.stats["prefix_did_not_reach_state"] += 1
            self.account(wc)
            return
        ctl_reports = []
        for t in tail_hex:
            pos = len(wc.log)
            wc.apply(["send", 0, t, []])
            drain_now(wc)
            ctl_reports.append(reports_in(wc, pos))
        ctl_alive = wc.state()
        self.account(wc)
        # ---- control for the next-session leg: a fresh agent, first session, Established, tail only
        # (every control run comes BEFORE the main run: booting a World resets process-global state)
        self.ctl_next = None
        if cfg.get("next_session_tail"):
            wn = World(cfg)
            for o in reach_ops(cfg, "Established"):
                wn.apply(o)
            if cfg.get("hqueue"):
                wn.apply(["hqueue"] + list(cfg["hqueue"]))
            if wn.state() == "ESTABLISHED":
                self.ctl_next = []
                for t in tail_hex:
                    pos = len(wn.log)
                    wn.apply(["send", 0, t, []])
                    drain_now(wn)
                    self.ctl_next.append(reports_in(wn, pos))
            self.account(wn)
        # ---- main run
        w = World(cfg)
        for o in reach_ops(cfg, state):
            w.apply(o)
        self.nontrivial = True
        cid = w.conn(0).cid
        self.stats["bursts_in_" + state] += 1
        if cfg.get("hqueue"):
            # the application has a message queued for the peer (sent by yabgp on a later KEEPALIVE)
            w.apply(["hqueue"] + list(cfg["hqueue"]))
            self.stats["bursts_with_queued_application_message"] += 1
        if cfg.get("hfail_at"):
            # the application handler raises (storage full) at the n-th callback during the burst
            w.apply(["hfail", cfg["hfail_at"]])
            self.stats["bursts_with_handler_fault"] += 1
        kinds = []
        desync = False
        seen_updates = {}

        def escapes(pos, what):
            for e in w.log[pos:]:
                if e[2] in ("exc", "budget", "exit"):
                    kind = {"exc": "exception", "budget": "step-budget", "exit": "SystemExit"}[e[2]]
                    detail = str(e[4]) if e[2] == "exc" else ""
                    raise Violation("C10", "escape", "%s/%s/%s%s" % (state, what, kind, ":" + detail if detail else ""),
                                    "%s escaped from %s while handling %s in %s: %r" % (kind, e[3], what, state, e[4:]))

        if coalesce:
            blob = b"".join(bytes.fromhex(f) for f in frames_hex)
            pos = len(w.log)
            st_before = w.state()
            w.apply(["send", 0, blob.hex(), []])
            drain_now(w)
            escapes(pos, "burst")
            reps = reports_in(w, pos)
            nfr = len(frames_hex)
            self.stats["coalesced_bursts"] += 1
            if len(reps) > nfr:
                raise Violation("C10", "one-report", "%s/coalesced/more-reports-than-frames" % state,
                                "%d frames in one chunk produced %d handler reports: %s" % (nfr, len(reps), [r[0] for r in reps]))
            # nothing is reported any more once the agent has closed the connection (what followed the
            # closing message in the same segment was never read as far as the peer can tell)
            seen_lose = False
            own_open = 1      # (yabgp reports an OPEN after its FSM has acted on it: that one report may follow the close)
            for e in w.log[pos:]:
                if e[2] == "lose" and e[3] == cid:
                    seen_lose = True
                elif seen_lose and e[2] == "h" and e[3] == "open_received" and own_open:
                    own_open = 0
                elif seen_lose and e[2] == "h" and e[3] in REPORTS:
                    raise Violation("C10", "one-report", "%s/coalesced/report-after-close" % state,
                                    "the agent closed the connection while handling a segment with %d frames and reported %s "
                                    "from the same segment afterwards" % (nfr, e[3]))
            kinds = ["burst"]
            for fh in frames_hex:
                fr, rest = rp.deframe(bytes.fromhex(fh))
                if not (len(fr) == 1 and not fr[0].error and not rest):
                    desync = True
        else:
            for fh in frames_hex:
                raw = bytes.fromhex(fh)
                fr, rest = rp.deframe(raw)
                well = len(fr) == 1 and not fr[0].error and not rest
                f = fr[0] if fr else None
                kind = ("%s" % rp.TYPE_NAMES.get(f.type, f.type) if well else
                        ("bad_" + f.error[0] if (f is not None and f.error) else "partial"))
                kinds.append(kind)
                st_before = w.state()
                readable = w.conn(0) is not None and w.conn(0).cid == cid and w.conn(0).readable()
                if not readable:
                    break
                pos = len(w.log)
                w.apply(["send", 0, fh, []])
                drain_now(w)
                self.stats["hostile_frame:" + kind] += 1
                escapes(pos, kind)
                reps = reports_in(w, pos)
                if well and f.type == rp.UPDATE and st_before == "ESTABLISHED" and not cfg.get("hfail_at"):
                    # the same UPDATE octets seen earlier in this session: what came in between (and the first
                    # copy itself) must not change how it is decoded and reported
                    if fh in seen_updates and seen_updates[fh] != reps:
                        raise Violation("C10", "tail-unchanged", "%s/repeated-update-reported-differently" % state,
                                        "the same UPDATE frame was delivered twice in one Established session; first reported as %s, "
                                        "then as %s" % (json.dumps(seen_updates[fh])[:300], json.dumps(reps)[:300]))
                    if fh in seen_updates:
                        self.stats["repeated_update_compared"] += 1
                    seen_updates.setdefault(fh, reps)
                if well:
                    if len(reps) > 1:
                        raise Violation("C10", "one-report", "%s/%s/%d-reports" % (state, kind, len(reps)),
                                        "one well-framed %s frame produced %d handler reports: %s" % (kind, len(reps), [r[0] for r in reps]))
                    for r in reps:
                        if r[0] == "on_update_error":
                            self.stats["malformed_update_reports"] += 1
                            hexfield = dict_get(r[2], "hex")
                            if hexfield != repr(f.body):
                                raise Violation("C10", "raw-bytes", "%s/on_update_error-hex-differs" % state,
                                                "on_update_error carries %s, the frame body was %s" % (str(hexfield)[:120], repr(f.body)[:120]))
                    if f.type == rp.UPDATE and f.length >= 23 and st_before == "ESTABLISHED":
                        self.stats["update_frames_in_established"] += 1
                        lost = any(e[2] == "lose" for e in w.log[pos:])
                        if w.state() != "ESTABLISHED" or lost:
                            raise Violation("C10", "session-kept", "Established/UPDATE-frame-ended-session",
                                            "a well-framed UPDATE (%d bytes, body %s...) ended the Established session: "
                                            "state %s, written %s" % (f.length, f.body.hex()[:60], w.state(),
                                                                      rp.describe(w.conns[cid].written)[-2:]))
                else:
                    if len(reps) > 1:
                        raise Violation("C10", "one-report", "%s/%s/%d-reports" % (state, kind, len(reps)),
                                        "a mis-framed blob produced %d handler reports" % len(reps))
                    # the byte stream is no longer frame-aligned: whatever follows is (legitimately)
                    # read as the rest of this frame, so neither the rest of the burst nor the
                    # known-good tail can be attributed
                    desync = True
                    self.stats["burst_desynchronised_stream"] += 1
                    break
        if w.handler_fail_in is None and cfg.get("hfail_at"):
            self.stats["handler_fault_fired_in_burst"] += 1
        w.handler_fail_in = None        # the application's storage works again after the burst
        self.trace.append([state, kinds, bool(coalesce)])
        self.cells.add("%s/%s" % (state, kinds[-1] if kinds else "none"))
        # ---- known-good tail: decoding unchanged
        session_up = w.conn(0) is not None and w.conn(0).cid == cid and w.conn(0).readable() and w.state() == want
        if session_up and ctl_alive == want and not desync:
            self.stats["tail_compared"] += 1
            for i, t in enumerate(tail_hex):
                pos = len(w.log)
                w.apply(["send", 0, t, []])
                drain_now(w)
                escapes(pos, "tail")
                reps = reports_in(w, pos)
                if i < len(ctl_reports) and reps != ctl_reports[i]:
                    raise Violation("C10", "tail-unchanged", "%s/after-%s/tail-decoded-differently" % (state, kinds[-1] if kinds else "none"),
                                    "known-good message %s after the hostile burst was reported as %s; in the control run as %s"
                                    % (rp.describe(bytes.fromhex(t)), json.dumps(reps)[:300], json.dumps(ctl_reports[i])[:300]))
                if w.state() != wc_state_after(ctl_alive):
                    pass
        else:
            self.stats["tail_skipped_session_ended"] += 1
        # ---- end state: in session, or closed cleanly with the reconnect scheduled
        st = w.state()
        if st in ("OPENSENT", "OPENCONFIRM", "ESTABLISHED"):
            c = w.conn(0)
            if c is None or not c.readable():
                raise Violation("C10", "end-state", "%s/in-session-on-dead-connection" % st,
                                "agent reports %s but its connection is not open" % st)
            self.stats["end_in_session"] += 1
        elif st == "IDLE":
            self.stats["end_idle"] += 1
            for k, c in enumerate(list(w.live_conns())):
                if c.state == "connected" and not c.closing():
                    raise Violation("C10", "end-state", "idle-with-open-connection",
                                    "agent is IDLE but connection #%d is still open and not being closed" % c.cid)
            own_notif = any(f.type == rp.NOTIFICATION for f in rp.deframe(bytes(w.conns[cid].written))[0])
            if own_notif and any(c.closing() for c in w.live_conns()) and not w.reactor.getDelayedCalls():
                # 'closed cleanly with its reconnect scheduled': the agent ended the session on its own initiative
                # (it sent a NOTIFICATION); when the completion of that close arrives is up to the peer (one that
                # does not read delays it for as long as it likes), so an agent that has nothing at all scheduled
                # until then has not scheduled its reconnect.  (When the PEER ended the session with a NOTIFICATION
                # it closes its end itself; arming the reconnect on the completion is accepted there.)
                raise Violation("C10", "end-state", "idle-with-nothing-scheduled/after-%s" % (kinds[-1] if kinds else "none"),
                                "agent closed the connection after the burst and is IDLE; the close has not completed yet and "
                                "no timer at all is pending: nothing will reconnect until the peer lets the close complete")
            late = bool(cfg.get("late_close")) and any(c.closing() for c in w.live_conns())
            if late and self.late_close_end(w, cfg, state, kinds, escapes):
                return
            while any(c.closing() for c in w.live_conns()):
                pos = len(w.log)
                w.apply(["cdone", 0])
                escapes(pos, "close-completion")
            t0 = w.now()
            n0 = len(w.conns)
            limit = t0 + cfg["idle_hold_time"] + 1e-6
            guard = 0
            while len(w.conns) == n0 and guard < 50:
                nt = w.reactor.next_time()
                if nt is None or nt > limit:
                    break
                pos = len(w.log)
                w.apply(["fire", 0])
                escapes(pos, "timer-after-burst")
                guard += 1
            if len(w.conns) == n0:
                raise Violation("C10", "end-state", "idle-without-reconnect/after-%s" % (kinds[-1] if kinds else "none"),
                                "agent went IDLE after the burst; no reconnect within idle_hold_time=%s s (t=%.3f..%.3f)"
                                % (cfg["idle_hold_time"], t0, w.now()))
            self.stats["reconnect_after_close"] += 1
            if cfg.get("refuse_first_reconnect"):
                # the reconnect is refused: the reconnect after that must be scheduled as well
                pend = [k for k, c in enumerate(w.live_conns()) if c.state == "connecting"]
                if pend:
                    pos = len(w.log)
                    w.apply(["conn_refuse", pend[0]])
                    escapes(pos, "connect-refused-after-burst")
                    n1 = len(w.conns)
                    t1 = w.now()
                    limit = t1 + cfg["idle_hold_time"] + 1e-6
                    guard = 0
                    while len(w.conns) == n1 and guard < 50:
                        nt = w.reactor.next_time()
                        if nt is None or nt > limit:
                            break
                        pos = len(w.log)
                        w.apply(["fire", 0])
                        escapes(pos, "timer-after-refused-reconnect")
                        guard += 1
                    if len(w.conns) == n1:
                        raise Violation("C10", "end-state", "no-second-reconnect-after-refused-one/after-%s" % (kinds[-1] if kinds else "none"),
                                        "agent closed after the burst and reconnected once; that attempt was refused and no further "
                                        "attempt followed within idle_hold_time=%s s (state %s, %d calls pending)"
                                        % (cfg["idle_hold_time"], w.state(), len(w.reactor._calls)))
                    self.stats["second_reconnect_after_refusal"] += 1
            if cfg.get("next_session_tail"):
                self.next_session_tail(w, cfg, state, want, kinds, tail_hex, ctl_reports, ctl_alive, escapes)
        elif st == "CONNECT":
            # closed and already reconnecting (idle_hold_time 0): the attempt must exist and the old
            # connection must be closed or closing
            self.stats["end_already_reconnecting"] += 1
            if not any(c.state == "connecting" for c in w.live_conns()):
                raise Violation("C10", "end-state", "reports-CONNECT-without-attempt",
                                "agent reports CONNECT after the burst but no connection attempt is outstanding")
            c0 = w.conns[cid]
            if c0.state == "connected" and not c0.closing():
                raise Violation("C10", "end-state", "reconnecting-with-old-connection-open",
                                "agent is reconnecting but connection #%d is still open and not being closed" % cid)
            if cfg.get("next_session_tail"):
                while any(c.closing() for c in w.live_conns()):
                    w.apply(["cdone", [i for i, c in enumerate(w.live_conns()) if c.closing()][0]])
                self.next_session_tail(w, cfg, state, want, kinds, tail_hex, ctl_reports, ctl_alive, escapes)
        else:
            raise Violation("C10", "end-state", "ends-in-%s" % st, "unexpected state %s after the burst" % st)
        self.account(w)


def wc_state_after(s):
    return s


def _late_close_end(self, w, cfg, state, kinds, escapes):
    """The peer does not read, so the agent's close of the old connection stays pending; the agent
    reconnects after idle_hold_time and a new session is established; only then is the old
    connection's loss delivered.  The new session must not suffer (no collateral damage)."""
    self.stats["late_close_variants"] += 1
    old = [c for c in w.live_conns() if c.closing()][0]
    guard = 0
    while not any(c.state == "connecting" for c in w.live_conns()) and guard < 30:
        nt = w.reactor.next_time()
        if nt is None or nt > w.now() + cfg["idle_hold_time"] + 1e-6:
            break
        pos = len(w.log)
        w.apply(["fire", 0])
        escapes(pos, "timer-after-burst")
        guard += 1
    pend = [k for k, c in enumerate(w.live_conns()) if c.state == "connecting"]
    if not pend:
        # the agent waits for its close to complete before it schedules the reconnect (allowed: the
        # reconnect is due idle_hold_time after the close has completed) -> ordinary end-state check
        self.stats["late_close_variant_not_applicable"] += 1
        return False
    w.apply(["conn_ok", pend[0]])
    k = len(w.live_conns()) - 1
    w.apply(["send", k, cfg["peer_open"], []])
    w.apply(["send", k, rp.encode_keepalive().hex(), []])
    drain_now(w)
    if w.state() != "ESTABLISHED":
        self.account(w)
        return True     # (not this oracle's business; C01/C02 judge re-establishment)
    new_cid = w.live_conns()[-1].cid
    n_conns = len(w.conns)
    # now the old connection finally goes away
    ko = [i for i, c in enumerate(w.live_conns()) if c.cid == old.cid]
    pos = len(w.log)
    if ko:
        w.apply(["cdone", ko[0]])
    drain_now(w)
    escapes(pos, "late-close")
    guard = 0
    # (the harness sends nothing more: stay inside the new session's hold time)
    try:
        ph = rp.decode_open(rp.deframe(bytes.fromhex(cfg["peer_open"]))[0][0].body).hold
    except Exception:
        ph = 0
    H = min(cfg["hold_time"], ph)
    t_end = w.now() + min(cfg["idle_hold_time"] + 1.0, (H - 0.5) if H > 0 else 1e9)
    while guard < 30:
        nt = w.reactor.next_time()
        if nt is None or nt > t_end:
            break
        pos = len(w.log)
        w.apply(["fire", 0])
        escapes(pos, "timer-after-late-close")
        guard += 1
        if w.state() != "ESTABLISHED" or len(w.conns) != n_conns:
            break
    c = w.conns[new_cid]
    if w.state() != "ESTABLISHED" or not c.readable() or len(w.conns) != n_conns:
        raise Violation("C10", "collateral", "late-close-of-old-connection-hurt-new-session",
                        "the close of the connection that received the hostile input completed only after the next session "
                        "(connection #%d) was Established; afterwards: state %s, connection #%d %s, %d connect attempts since"
                        % (new_cid, w.state(), new_cid, "open" if c.readable() else "closed/closing", len(w.conns) - n_conns))
    self.stats["late_close_survived"] += 1
    self.account(w)
    return True



def _next_session_tail(self, w, cfg, state, want, kinds, tail_hex, ctl_reports, ctl_alive, escapes):
    """The session that received the hostile input is over and the agent is reconnecting: the NEXT
    session is brought to Established and receives the known-good tail; its reports must equal those of
    a control run that never saw the burst (nothing an earlier session received may change how these
    are decoded)."""
    pend = [c for c in w.live_conns() if c.state == "connecting"]
    if not pend:
        return
    ctl = self.ctl_next
    if ctl is None:
        return
    new_cid = pend[0].cid

    def idx():
        for i, c in enumerate(w.live_conns()):
            if c.cid == new_cid:
                return i
        return None
    pos = len(w.log)
    w.apply(["conn_ok", idx()])
    if idx() is not None:
        w.apply(["send", idx(), cfg["peer_open"], []])
    if idx() is not None:
        w.apply(["send", idx(), rp.encode_keepalive().hex(), []])
    drain_now(w)
    escapes(pos, "next-session")
    c = w.conns[new_cid]
    if w.state() != "ESTABLISHED" or not c.readable():
        self.stats["next_session_not_established"] += 1
        return      # (C01/C02 judge re-establishment)
    self.stats["next_session_tail_compared"] += 1
    for i, t in enumerate(tail_hex):
        if idx() is None or not w.conns[new_cid].readable():
            break
        pos = len(w.log)
        w.apply(["send", idx(), t, []])
        drain_now(w)
        escapes(pos, "next-session-tail")
        reps = reports_in(w, pos)
        # (element 1 of a report is the connection number: the control run's is 0)
        if [r[:1] + r[2:] for r in reps] != [r[:1] + r[2:] for r in ctl[i]]:
            raise Violation("C10", "tail-unchanged", "%s/next-session-after-%s/tail-decoded-differently" % (state, kinds[-1] if kinds else "none"),
                            "known-good message %s in the session AFTER the one that received the hostile burst was reported as %s; "
                            "in the control run as %s" % (rp.describe(bytes.fromhex(t)), json.dumps(reps)[:300], json.dumps(ctl[i])[:300]))


def dict_get(canon_dict, key):
    if isinstance(canon_dict, dict) and "__d" in canon_dict:
        for k, v in canon_dict["__d"]:
            if k == key:
                return v
    return None


def peer_as4(cfg):
    try:
        m = rp.decode_open(rp.deframe(bytes.fromhex(cfg["peer_open"]))[0][0].body)
        return any(c == 65 for c, _ in m.caps)
    except Exception:
        return False


def agent_as4(cfg):
    return bool(cfg["four_bytes_as"]) or cfg["local_as"] > 65535


HostileCtx.late_close_end = _late_close_end
HostileCtx.next_session_tail = _next_session_tail


class HostileProfile(BaseProfile):
    id = "C10"
    runs = {"quick": 40000, "thorough": 2000000}
    rule = ("one run = a burst of 1-4 hostile frames (mutations of every bytes literal harvested from yabgp/tests/**.py -- "
            "as whole messages, UPDATE bodies, attribute values or NLRI -- and of reference encodings; random bodies; "
            "duplicated attributes / absurd length fields; occasionally a wrong header length) in OpenSent/OpenConfirm/"
            "Established, frame-per-chunk (75 %) or coalesced, then 1-3 known-good messages whose handler payloads are "
            "compared with a control run (20 % of bursts: the application handler raises ENOSPC at its 1st-3rd callback during the burst; 15 %: the application has a message queued for the peer) -- in the same session if it survived, and (50 %) in the NEXT session once the agent has reconnected; 40 % of bursts also carry a known-good tail message early; 50 % of tails use an AS_PATH that is well formed under both AS-number widths; non-trivial = prefix reached the state; distinct = distinct (state, frame kinds); 25 % of the bursts send one frame a second time (the same UPDATE octets must be reported the same way); after a close the agent made on its own initiative some timer must be pending while the close has not completed")
    probes = ["repeated_update_compared", "handler_fault_fired_in_burst", "bursts_with_queued_application_message", "next_session_tail_compared", "second_reconnect_after_refusal", "late_close_variants", "late_close_survived", "hostile_frame:UPDATE", "hostile_frame:OPEN", "hostile_frame:NOTIFICATION", "hostile_frame:ROUTE-REFRESH",
              "hostile_frame:KEEPALIVE", "hostile_frame:bad_length", "malformed_update_reports",
              "update_frames_in_established", "tail_compared", "reconnect_after_close", "coalesced_bursts"]

    def gen_config(self, rng, idx, tier):
        cfg = swarm_config(rng, idx)
        cfg["call_later"] = 0
        cfg["peer_open"] = base.gen_open(rng, cfg, "valid", hold=rng.pick([0, 30, 90, 180])).hex()
        if rng.chance(0.3):
            cfg["afi_safi"] = rng.pick([["ipv4"], ["ipv4", "ipv6"], ["ipv4", "flowspec", "ipv4_lu"], ["ipv4", "bgpls", "evpn"],
                                        ["flowspec"], ["ipv6", "flowspec"]])      # (also: family lists without ipv4)
        cfg["rib"] = rng.chance(0.3)
        cfg["late_close"] = rng.chance(0.3)
        cfg["refuse_first_reconnect"] = rng.chance(0.4)
        cfg["next_session_tail"] = rng.chance(0.5)
        cfg["hfail_at"] = rng.pick([1, 1, 2, 3]) if rng.chance(0.2) else None
        cfg["hqueue"] = [rng.pick(["update", "update", "notification"]), rng.randrange(1, 9)] if rng.chance(0.15) else None
        return cfg

    def new_ctx(self, cfg, tier):
        return HostileCtx(cfg, tier)

    def simplify_op(self, op):
        if op[0] != "hostile":
            return []
        _, state, frames, tail, coalesce = op
        out = []
        for i in range(len(frames)):
            if len(frames) > 1:
                out.append(["hostile", state, frames[:i] + frames[i + 1:], tail, coalesce])
        for i in range(len(tail)):
            if len(tail) > 1:
                out.append(["hostile", state, frames, tail[:i] + tail[i + 1:], coalesce])
        if coalesce:
            out.append(["hostile", state, frames, tail, False])
        return out


PROFILE = HostileProfile()
