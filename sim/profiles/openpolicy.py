"""Profile `open` (C05): each session's OPEN and its acceptance policy depend only on
configuration -- over configurations x multi-session histories x peer OPENs."""
import socket
import struct

from sim import refpeer as rp
from sim.engine import Violation
from sim.profiles import base
from sim.profiles.base import BaseProfile, BaseCtx
from sim.profiles.fsm import ASNS, HOLD

EPS = 1e-6
AFI_SAFI = {"ipv4": (1, 1), "ipv6": (2, 1), "flowspec": (1, 133), "vpnv4": (1, 128), "vpnv6": (2, 128),
            "evpn": (25, 70), "bgpls": (16388, 71), "ipv4_lu": (1, 4), "ipv4_srte": (1, 73)}


def allowed_caps(cfg):
    """(code, value-hex) pairs the configuration permits in the agent's OPEN; value None = any."""
    out = set()
    for name in cfg["afi_safi"]:
        afi, safi = AFI_SAFI[name]
        out.add((1, struct.pack("!HBB", afi, 0, safi).hex()))
    if cfg["route_refresh"]:
        out.add((2, ""))
    if cfg["cisco_route_refresh"]:
        out.add((128, ""))
    if cfg["enhanced_route_refresh"]:
        out.add((70, ""))
    if cfg["four_bytes_as"] or cfg["local_as"] > 65535:
        out.add((65, struct.pack("!I", cfg["local_as"]).hex()))
    if cfg["graceful_restart"]:
        out.add((64, None))
    if cfg["cisco_multi_session"]:
        out.add((131, None))
    if cfg["add_path"]:
        sr = {"ipv4_receive": 1, "ipv4_send": 2, "ipv4_both": 3}[cfg["add_path"]]
        out.add((69, struct.pack("!HBB", 1, 1, sr).hex()))
    if "vpnv4" in cfg["afi_safi"] or "vpnv6" in cfg["afi_safi"]:
        out.add((5, None))
    return out


class OpenCtx(BaseCtx):
    escape_is_violation = False
    prop = "C05"

    def __init__(self, cfg, tier):
        BaseCtx.__init__(self, cfg, tier)
        self.session = 0
        self.opens = []          # parsed agent OPEN summaries per session
        self.stage = "wait_connect"
        self.cur = None          # dict for the current session
        self.sessions_left = cfg["n_sessions"]
        self.pending = None
        self.updates_left = 0

    # ------------------------------------------------------------------ generation
    def choose(self, rng):
        w = self.world
        if self.done or w.exited or w.ops_done + w.ops_skipped >= self.cfg["max_ops"]:
            return None
        live = w.live_conns()
        for k, c in enumerate(live):
            if c.closing():
                if self.cfg.get("late_close") and self.stage != "established" and (
                        w.reactor.due() or any(x.state == "connecting" or x.readable() for x in live)):
                    # the peer is slow to take our close: its completion is delivered only once the next
                    # session is up (nothing else pending -> complete it, the agent may be waiting for it)
                    continue
                if self.stage == "established":
                    self.stats["gen:late_close_during_next_session"] += 1
                return ["cdone", k]
        if getattr(self, "gen_restart", False):
            self.gen_restart = False
            return ["rest", "GET", base.URL + "manual-start", "ok"]
        if self.stage == "wait_connect":
            if self.sessions_left <= 0:
                return None
            for k, c in enumerate(live):
                if c.state == "connecting":
                    if self.cfg.get("refusals") and self.session >= 1 and rng.chance(0.3):
                        # the peer is not listening yet: attempts between two sessions fail
                        self.stats["gen:attempt_refused_between_sessions"] += 1
                        return ["conn_refuse", k]
                    self.stage = "opensent"
                    return ["conn_ok", k]
            if w.reactor.due():
                return ["fire", 0]
            return None
        k = None
        for i, c in enumerate(live):
            if c.readable():
                k = i
        if k is None:
            self.stage = "wait_connect"
            return self.choose(rng)
        cfg = self.cfg
        if self.stage == "opensent" and self.cfg.get("hfail_only") and w.handler_fail_in is None and rng.chance(0.3):
            # the application handler will raise (storage full) when it is handed the peer's OPEN
            self.stats["gen:handler_fault_at_open_received"] += 1
            return ["hfail", 1]
        if self.stage == "opensent":
            variant = rng.weighted([("valid", 6), ("hold0", 1), ("badver", 1), ("badas", 1.5), ("hold1", 1), ("hold2", 1)])
            self.stage = "after_open"
            self.gen_last_open = self.peer_open(rng, variant)
            return ["send", k, self.gen_last_open.hex(), []]
        if self.stage == "after_open":
            # accepted -> KEEPALIVE to establish; else the session is over
            if w.state() == "OPENCONFIRM":
                if self.cfg.get("second_open") and not getattr(self, "second_open_sent", None) == self.session and rng.chance(0.4):
                    # the peer repeats its OPEN with another hold time before its KEEPALIVE (ignored, or refused
                    # as an FSM error: either way the hold time of the session is the one of the first OPEN)
                    self.second_open_sent = self.session
                    self.stats["gen:second_open_in_openconfirm"] += 1
                    first = self.gen_last_open
                    old_hold = struct.unpack("!H", first[22:24])[0]
                    new_hold = rng.pick([h for h in (0, 1, 2, 3, 30, 90, 180, 240) if h != old_hold])
                    # (same capabilities, AS and identifier: only the hold time differs)
                    return ["send", k, (first[:22] + struct.pack("!H", new_hold) + first[24:]).hex(), []]
                if rng.chance(0.2):
                    # the session ends before it is established: NOTIFICATION (version error or other),
                    # close or reset in OpenConfirm
                    self.stage = "wait_connect"
                    self.sessions_left -= 1
                    self.stats["gen:sessions_ended_in_openconfirm"] += 1
                    how = rng.pick(["notif_ver", "notif_ver", "notif", "close", "reset"])
                    if how == "notif_ver":
                        return ["send", k, rp.encode_notification(2, 1, b"\x00\x04").hex(), []]
                    if how == "notif":
                        return ["send", k, rp.encode_notification(6, 2).hex(), []]
                    return ["pclose", k, how == "close"]
                self.stage = "established"
                self.updates_left = rng.randrange(0, 4)
                return ["send", k, rp.encode_keepalive().hex(), []]
            self.stage = "wait_connect"
            return self.choose(rng)
        if self.stage == "established":
            if rng.chance(0.08):
                # the operator looks at the peer (a read must not change what later sessions are offered)
                self.stats["gen:rest_state_read_in_session"] += 1
                return ["rest", "GET", base.URL + rng.pick(["state", "statistic"]), "ok"]
            if self.updates_left > 0:
                self.updates_left -= 1
                return ["send", k, self.peer_update(rng).hex(), []]
            if self.cur is not None and not self.cur.get("ka_wait") and self.cur.get("H") and rng.chance(0.7):
                self.cur["ka_wait"] = True          # (generation only: let the keepalive timer fire once)
                return ["fire", 0]
            if self.cur is not None and self.cur.get("H") is not None and self.cur.get("accepted") and (
                    self.cur.get("silent") or rng.chance(0.3)):
                # the peer goes silent: the hold timer must expire exactly H = min(configured, proposed)
                # seconds after the last message it sent
                self.cur["silent"] = self.cur.get("silent", 0) + 1
                if self.cur["silent"] <= 10 and w.reactor.due():
                    return ["fire", rng.randrange(len(w.reactor.due()))]
            self.stage = "wait_connect"
            self.sessions_left -= 1
            how = rng.pick(["close", "reset", "notif", "cease", "operator"])
            if how == "operator":
                # the operator stops the peer and starts it again at once
                self.gen_restart = True
                self.stats["gen:session_ended_by_operator_stop_start"] += 1
                return ["rest", "GET", base.URL + "manual-stop", "ok"]
            if how == "notif":
                return ["send", k, rp.encode_notification(6, 2).hex(), []]
            if how == "cease":
                return ["send", k, rp.encode_notification(6, 4).hex(), []]
            return ["pclose", k, how == "close"]
        return None

    def peer_open(self, rng, variant):
        cfg = self.cfg
        # capability set differs from session to session (fewer / more / none)
        caps = []
        style = rng.pick(["full", "none", "random", "random", "no_as4", "only_as4"])
        if style == "full":
            caps = [rp.cap_mp(1, 1), rp.cap_rr(), rp.cap_rr_cisco(), rp.cap_as4(cfg["remote_as"]), rp.cap_err(), rp.cap_gr(120),
                    rp.cap_addpath(1, 1, 3)]
        elif style == "random":
            caps = base.peer_caps(rng, cfg)
            if rng.chance(0.3):
                caps.append(rp.cap_addpath(1, 1, rng.pick([1, 2, 3])))
            if rng.chance(0.2):
                caps.append((rng.pick([3, 4, 66, 67, 71, 73, 129]), bytes(rng.randrange(256) for _ in range(rng.randrange(0, 5)))))
        elif style == "no_as4":
            caps = [rp.cap_mp(1, 1), rp.cap_rr()]
        elif style == "only_as4":
            caps = [rp.cap_as4(cfg["remote_as"])]
        asn = cfg["remote_as"]
        if asn > 65535 and not any(c == 65 for c, _ in caps):
            caps.append(rp.cap_as4(asn))
        hold = rng.pick(HOLD) if rng.chance(0.8) else rng.randrange(3, 65536)
        version = 4
        if variant == "badver":
            version = rng.pick([3, 5, 0])
        elif variant == "badas":
            asn = rng.pick([a for a in ASNS + [asn % 65000 + 1, 23456, 23456] if a != cfg["remote_as"]])
            caps = [c for c in caps if c[0] != 65]
            if asn > 65535 or rng.chance(0.5):
                caps.append(rp.cap_as4(asn))
        elif variant == "hold1":
            hold = 1
        elif variant == "hold2":
            hold = 2
        elif variant == "hold0":
            hold = 0
        field = None
        if variant in ("valid", "hold0") and rng.chance(0.1):
            # capability 65 carries the peer's AS; the 2-octet field says something else
            caps = [c for c in caps if c[0] != 65] + [rp.cap_as4(asn)]
            field = rng.pick([a for a in (1, 100, 64512, 65535, 23456) if a != asn])
            self.stats["gen:open_with_inconsistent_as_field"] += 1
        elif variant == "badas" and cfg["remote_as"] <= 65535 and rng.chance(0.4):
            caps = [c for c in caps if c[0] != 65] + [rp.cap_as4(asn)]
            field = cfg["remote_as"]
            self.stats["gen:open_with_inconsistent_as_field"] += 1
        rng.shuffle(caps)
        bgp_id = "2.2.2.2" if rng.chance(0.6) else "2.2.%d.%d" % (rng.randrange(256), rng.randrange(1, 255))
        return rp.encode_open(asn, hold, bgp_id, caps, version=version, one_param_each=rng.chance(0.5),
                              my_as_field=field)

    def peer_update(self, rng):
        cfg = self.cfg
        as4 = bool(self.cur and self.cur["peer_as4"] and self.cur["agent_as4"])
        pool = [1, 100, 64512, 65535]
        if as4:
            pool += [65536, 4200000000, 2 ** 32 - 1, 23456]
        first = cfg["remote_as"] if (as4 or cfg["remote_as"] <= 65535) else 23456
        path = [first] + [rng.pick(pool) for _ in range(rng.randrange(0, 4))]
        segs = [(2, path)]
        if rng.chance(0.08):
            # attribute bytes that are a well-formed AS_PATH under BOTH AS widths (02 01 02 00 02 00): what
            # they mean depends on this session's negotiation only
            segs = [(2, [0x02000200])] if as4 else [(2, [0x0200]), (2, [])]
            self.stats["gen:width_ambiguous_as_path"] += 1
        if rng.chance(0.2) and len(segs) == 1 and len(segs[0][1]) and segs[0][1][0] not in (0x02000200, 0x0200):
            segs.append((1, [rng.pick(pool) for _ in range(rng.randrange(1, 3))]))
        attrs = {"origin": 0, "as_path": segs, "next_hop": "10.0.0.2"}
        if cfg["remote_as"] == cfg["local_as"]:
            attrs["local_pref"] = 100
        if rng.chance(0.3):
            attrs["aggregator"] = (rng.pick(pool), "10.9.9.9")
        if not as4 and rng.chance(0.1):
            # an OLD-speaker style UPDATE: AS4_PATH (and AS4_AGGREGATOR) present, here even BEFORE the AS_PATH
            # (attribute order is free): the AS_PATH is still 2-octet
            tl = rp.decode_attr_list(rp.encode_attrs(attrs, False))
            as4path = rp.attr_tlv(0xC0, 17, bytes([2, 2]) + (70000).to_bytes(4, "big") + (4200000000).to_bytes(4, "big"))
            raw = as4path + b"".join(rp.attr_tlv(fl, c, v) for fl, c, v in tl)
            self.stats["gen:as4_path_before_as_path"] += 1
            return rp.encode_update([], None, [rng.pick(base.PREFIX_POOL)], raw_attrs=raw)
        if "aggregator" not in attrs and rng.chance(0.08):
            # an AGGREGATOR sized for the OTHER AS width than this session negotiated: malformed here, whatever
            # its size would mean elsewhere
            raw = rp.encode_attrs(attrs, as4) + rp.attr_tlv(0xC0, 7, (b"\x00\x00\xfd\xe9" if not as4 else b"\xfd\xe9") + bytes([10, 9, 9, 9]))
            self.stats["gen:aggregator_of_other_width"] += 1
            return rp.encode_update([], None, [rng.pick(base.PREFIX_POOL)], raw_attrs=raw)
        return rp.encode_update([], attrs, [rng.pick(base.PREFIX_POOL)], as4=as4)

    # ------------------------------------------------------------------ oracle
    def step(self, op):
        w = self.world
        if self.done:
            return
        pos = len(w.log)
        t_before = w.now()
        ran = w.apply(op)
        if not ran:
            return
        now = w.now()
        cfg = self.cfg
        toks, escapes, handler = self.observe(pos)
        self.check_escapes(escapes, "session")
        if self.done:
            return
        names = [t[2] if t[0] == "tx" and not isinstance(t[2], tuple) else (t[0] if t[0] != "tx" else "NOTIF(%d,%d)" % (t[2][1], t[2][2])) for t in toks]
        self.trace.append([op[0], names])
        # ---- agent OPEN of a new session
        for t in toks:
            if t[0] == "tx" and t[2] == "OPEN":
                self.on_agent_open(t[1])
        # ---- hold timer expiry reflects min(configured, proposed)
        for t in toks:
            if t[0] == "tx" and isinstance(t[2], tuple) and t[2][1] == 4 and self.cur is not None \
                    and t[1] == self.cur.get("cid") and self.cur.get("accepted"):
                H = self.cur["H"]
                due = self.cur.get("t_last_rx", self.cur["t_confirm"]) + H
                self.stats["hold_expiries_checked"] += 1
                if H == 0 or abs(now - due) > EPS:
                    raise Violation("C05", "hold-min", "hold-expiry-not-at-min(configured,proposed)",
                                    "configured hold %s, peer proposed %s -> session hold time %s; Hold Timer Expired sent %.3f s "
                                    "after the peer's last message (history of peer OPENs: %s)"
                                    % (cfg["hold_time"], self.cur["peer_hold"], H,
                                       now - self.cur.get("t_last_rx", self.cur["t_confirm"]), self.history()))
        # ---- peer frames delivered by this op
        for e in w.log[pos:]:
            if e[2] == "rx":
                if self.cur is not None and self.cur.get("accepted") and e[3] == self.cur.get("cid"):
                    if any(f.type in (rp.KEEPALIVE, rp.UPDATE) and not f.error for f in rp.deframe(bytes.fromhex(e[4]))[0]):
                        self.cur["t_last_rx"] = now
                for f in rp.deframe(bytes.fromhex(e[4]))[0]:
                    if f.error:
                        continue
                    if f.type == rp.OPEN and self.cur is not None and not self.cur.get("peer_open_seen"):
                        self.on_peer_open(f, toks, names)
                    elif f.type == rp.OPEN and self.cur is not None and self.cur.get("accepted"):
                        # a further OPEN on the same connection: whether an OPEN is acceptable depends on the
                        # OPEN and the configuration, not on its being the first one
                        try:
                            h2 = rp.decode_open(f.body).hold
                        except ValueError:
                            h2 = None
                        self.stats["further_open_on_connection"] += 1
                        if h2 in (1, 2) and "lose" not in names:
                            raise Violation("C05", "accept-rule", "unacceptable-further-open/got:%s" % (",".join(names) or "nothing"),
                                            "a second OPEN with the unacceptable hold time %s (after an accepted one) was not refused: "
                                            "agent did %s, state %s" % (h2, names, w.state()))
                    elif f.type == rp.UPDATE and self.cur is not None and self.cur.get("accepted"):
                        self.on_peer_update(f, handler)
        # ---- keepalive interval reflects min(configured, proposed)
        # the first periodic KEEPALIVE of a session is due H/3 after the one that confirmed the OPEN
        ka = [t for t in toks if t[0] == "tx" and t[2] == "KEEPALIVE"]
        if ka and op[0] == "fire" and self.cur is not None and self.cur.get("accepted") and self.cur.get("H") \
                and not self.cur.get("ka_done") and ka[0][1] == self.cur["cid"]:
            self.cur["ka_done"] = True
            self.stats["keepalive_interval_checks"] += 1
            H = self.cur["H"]
            if now - self.cur["t_confirm"] > H / 3.0 + EPS:
                raise Violation("C05", "hold-min", "keepalive-later-than-min-hold-third",
                                "configured hold %s, peer proposed %s -> H=%s; first periodic KEEPALIVE at +%.3f s, due by +%.3f"
                                % (cfg["hold_time"], self.cur["peer_hold"], H, now - self.cur["t_confirm"], H / 3.0))

    def on_agent_open(self, cid):
        w = self.world
        cfg = self.cfg
        fr = [f for f in rp.deframe(w.conns[cid].written)[0] if f.type == rp.OPEN]
        self.session += 1
        self.nontrivial = True
        try:
            m = rp.decode_open(fr[0].body)
        except ValueError as e:
            raise Violation("C05", "open-structure", "lengths-do-not-add-up", "agent OPEN of session %d: %s (%s)"
                            % (self.session, e, fr[0].body.hex()))
        summ = m.summary()
        self.cur = {"cid": cid, "agent_as4": any(c == 65 for c, _ in m.caps), "open": summ}
        self.stats["sessions"] += 1
        if self.session > 1:
            self.stats["later_sessions"] += 1
        la = cfg["local_as"]
        exp_my_as = la if la <= 65535 else 23456
        problems = []
        if m.version != 4:
            problems.append("version=%s" % m.version)
        if m.my_as != exp_my_as:
            problems.append("my_as=%s expected %s" % (m.my_as, exp_my_as))
        if la > 65535 and m.true_as != la:
            problems.append("4-octet AS capability carries %s, local AS is %s" % (m.true_as, la))
        if m.hold != cfg["hold_time"]:
            problems.append("hold=%s configured %s" % (m.hold, cfg["hold_time"]))
        allowed = allowed_caps(cfg)
        allowed_codes_any = set(c for c, v in allowed if v is None)
        for code, val in m.caps:
            if (code, val.hex()) not in allowed and code not in allowed_codes_any:
                problems.append("capability %d(%s) not in the configured set" % (code, val.hex()))
        if problems:
            raise Violation("C05", "open-content", "session%s/%s" % ("1" if self.session == 1 else "N", problems[0].split("=")[0].split(" ")[0]),
                            "agent OPEN of session %d: %s (parsed %s)" % (self.session, "; ".join(problems), summ))
        if self.opens:
            first = self.opens[0]
            if summ != first:
                diff = [k for k in sorted(summ) if summ[k] != first[k]]
                raise Violation("C05", "open-leak", "open-differs-from-first:%s" % "+".join(diff),
                                "OPEN of session %d differs from the OPEN of session 1 in %s although the configuration is "
                                "the same: first %s, now %s (history of peer OPENs: %s)"
                                % (self.session, diff, first, summ, self.history()))
        self.opens.append(summ)
        self.cells.add("session%d" % min(self.session, 5))

    def history(self):
        return [h for h in getattr(self, "hist", [])][-6:]

    def on_peer_open(self, f, toks, names):
        cfg = self.cfg
        w = self.world
        self.cur["peer_open_seen"] = True
        try:
            m = rp.decode_open(f.body)
        except ValueError:
            return
        errs = set()
        if m.version != 4:
            errs.add(1)
        if m.true_as != cfg["remote_as"]:
            errs.add(2)
        if m.hold in (1, 2):
            errs.add(6)
        if not hasattr(self, "hist"):
            self.hist = []
        self.hist.append({"hold": m.hold, "caps": m.cap_codes(), "errs": sorted(errs)})
        cid = self.cur["cid"]
        mine = [t for t in toks if t[0] in ("tx", "lose") and t[1] == cid]
        self.cells.add("peer_open/%s" % ("ok" if not errs else "err" + "".join(str(e) for e in sorted(errs))))
        if errs:
            self.stats["peer_open_rejectable"] += 1
            ok = len(mine) == 2 and mine[0][0] == "tx" and isinstance(mine[0][2], tuple) and mine[0][2][1] == 2 \
                and mine[0][2][2] in errs and mine[1][0] == "lose"
            if not ok:
                raise Violation("C05", "accept-rule", "unacceptable-open-err%s/got:%s" % ("".join(str(e) for e in sorted(errs)), ",".join(names) or "nothing"),
                                "peer OPEN (version %s, AS %s vs configured %s, hold %s) must be refused with NOTIFICATION(2,%s) "
                                "and a close; agent did %s" % (m.version, m.true_as, cfg["remote_as"], m.hold, sorted(errs), names))
            self.cur["accepted"] = False
            return
        self.stats["peer_open_acceptable"] += 1
        ok = len(mine) == 1 and mine[0][0] == "tx" and mine[0][2] == "KEEPALIVE"
        if not ok or w.state() != "OPENCONFIRM":
            raise Violation("C05", "accept-rule", "acceptable-open/got:%s" % (",".join(names) or "nothing"),
                            "peer OPEN (version 4, AS %s, hold %s, caps %s) is acceptable; agent did %s and reports %s "
                            "(earlier peer OPENs in this run: %s)" % (m.true_as, m.hold, m.cap_codes(), names, w.state(), self.history()[:-1]))
        self.cur["accepted"] = True
        self.cur["peer_as4"] = any(c == 65 for c, _ in m.caps)
        self.cur["peer_hold"] = m.hold
        self.cur["H"] = min(cfg["hold_time"], m.hold)
        self.cur["t_confirm"] = w.now()
        if self.cur["peer_as4"] != self.cur["agent_as4"]:
            self.stats["as4_advertised_by_one_side_only"] += 1

    def on_peer_update(self, f, handler):
        as4 = self.cur["peer_as4"] and self.cur["agent_as4"]
        d = rp.decode_update(f.body, as4)
        want = [[st, list(asns)] for st, asns in d["attrs"]["as_path"]]
        reps = [h for h in handler if h[0] in ("update_received", "on_update_error")]
        self.stats["updates_checked"] += 1
        mode = "4-octet" if as4 else "2-octet"
        agg = d["attrs"].get("aggregator")
        if isinstance(agg, tuple) and agg and agg[0] == "bad":
            # AGGREGATOR of a size that does not fit the negotiated AS width: not a good attribute in this session
            self.stats["aggregator_of_other_width_checked"] += 1
            for r in reps:
                if r[0] == "update_received" and hostile_get(hostile_get(r[2], "attr"), 7) is not None:
                    raise Violation("C05", "as-width", "%s/aggregator-of-other-width-accepted" % mode,
                                    "an AGGREGATOR of %d octets in a %s session was delivered as %s"
                                    % (len(agg[1]) // 2, mode, hostile_get(hostile_get(r[2], "attr"), 7)))
            return
        if len(reps) != 1 or reps[0][0] != "update_received":
            raise Violation("C05", "as-width", "%s/peer_as4=%s/agent_as4=%s/not-decoded" % (mode, self.cur["peer_as4"], self.cur["agent_as4"]),
                            "UPDATE with %s AS_PATH %s (peer advertised cap 65: %s, agent advertised it: %s) was reported as %s"
                            % (mode, want, self.cur["peer_as4"], self.cur["agent_as4"], [r[0] for r in reps]))
        attr = hostile_get(reps[0][2], "attr")
        got = None
        if isinstance(attr, dict):
            for k, v in attr["__d"]:
                if k == 2:
                    got = [[s[0], list(s[1])] for s in v]
        if got != want:
            raise Violation("C05", "as-width", "%s/peer_as4=%s/agent_as4=%s/wrong-numbers" % (mode, self.cur["peer_as4"], self.cur["agent_as4"]),
                            "UPDATE with %s AS_PATH %s was delivered to the handler as %s" % (mode, want, got))
        if "aggregator" in d["attrs"]:
            self.stats["aggregator_checked"] += 1


def hostile_get(canon_dict, key):
    if isinstance(canon_dict, dict) and "__d" in canon_dict:
        for k, v in canon_dict["__d"]:
            if k == key:
                return v
    return None


class OpenProfile(BaseProfile):
    id = "C05"
    runs = {"quick": 30000, "thorough": 1000000}
    rule = ("one run = configuration (local/remote AS over the 2-/4-octet boundary, hold time, capability switches, address "
            "families, add-path) + 2-5 consecutive sessions whose peer OPENs differ (capability sets full/none/random/without or "
            "only 4-octet-AS, hold times, rejected ones: bad version / wrong AS / hold 1,2) + UPDATEs whose AS_PATH is 4-octet iff "
            "both OPENs of this session carried capability 65; non-trivial = the agent sent an OPEN; distinct = distinct "
            "(op, outputs) sequence; 30 % of the runs have refused attempts between sessions, 15 % leave local_addr at 0.0.0.0 with a per-connection source address, 10 % configure VPNv4 with an empty ext_nexthop list, 12 % use the stock DefaultHandler")
    probes = ["gen:attempt_refused_between_sessions", "gen:width_ambiguous_as_path", "gen:sessions_ended_in_openconfirm", "gen:open_with_inconsistent_as_field", "later_sessions", "peer_open_rejectable", "peer_open_acceptable", "updates_checked",
              "as4_advertised_by_one_side_only", "keepalive_interval_checks", "hold_expiries_checked"]

    def gen_config(self, rng, idx, tier):
        cfg = dict(base.DEFAULT_CFG)
        cfg["call_later"] = 0
        cfg["idle_hold_time"] = rng.pick([1, 10])
        if idx % 5 != 0:
            la = rng.pick(ASNS)
            ra = la if rng.chance(0.25) else rng.pick(ASNS)
            cfg["local_as"], cfg["remote_as"] = la, ra
            cfg["hold_time"] = rng.pick([0, 3, 9, 30, 90, 180, 65535])
            for k in ("four_bytes_as", "route_refresh", "cisco_route_refresh", "enhanced_route_refresh",
                      "graceful_restart", "cisco_multi_session"):
                cfg[k] = rng.chance(0.6)
            cfg["add_path"] = rng.pick([None, None, "ipv4_send", "ipv4_receive", "ipv4_both"])
            cfg["afi_safi"] = rng.pick([["ipv4"], ["ipv4", "ipv6"], ["ipv4", "flowspec"], ["ipv4", "ipv4_lu"], ["ipv4", "evpn", "bgpls"]])
        cfg["n_sessions"] = rng.randrange(2, 6)
        cfg["late_close"] = rng.chance(0.25)
        cfg["second_open"] = rng.chance(0.25)
        cfg["hfail_only"] = ["open_received"] if rng.chance(0.25) else None
        cfg["refusals"] = rng.chance(0.3)
        if rng.chance(0.12):
            # the stock DefaultHandler (message log on the simulated file system) is the application
            cfg["handler"] = "default"
            cfg["write_disk"] = rng.chance(0.8)
            cfg["rotate_bytes"] = rng.pick([600, 10 ** 9])
            cfg["hfail_only"] = None
        if rng.chance(0.1):
            # VPNv4 configured (Extended Next Hop Encoding capability in the OPEN) with the capability's list of
            # families emptied in the ini file ('ext_nexthop ='; with the default list yabgp does not start, A.2)
            cfg["afi_safi"] = rng.pick([["ipv4", "vpnv4"], ["vpnv4"], ["ipv4", "vpnv4", "flowspec"]])
            cfg["ext_nexthop"] = []
        if rng.chance(0.15):
            # local_addr left at its default: the kernel chooses the source address of every connection (a
            # multi-homed host); the BGP identifier learned on the first connection stays
            cfg["local_addr"] = "0.0.0.0"
            cfg["local_hosts"] = rng.pick([["10.0.0.1", "10.9.0.1"], ["192.0.2.7", "10.0.0.1", "10.0.0.1"], ["10.0.0.1"]])
        cfg["max_ops"] = 120
        return cfg

    def new_ctx(self, cfg, tier):
        return OpenCtx(cfg, tier)


PROFILE = OpenProfile()
