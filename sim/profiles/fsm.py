"""Profile `fsm` (C01): lock-step refinement of the agent against the RFC 4271 section 8 profile
model, over seeded random event orders with explicit same-instant tie orders.

Also the base class of the profiles that reuse the C01 alphabet and model (C02 heal, C13 stop,
C18 stats)."""
from sim import refpeer as rp
from sim import model as M
from sim.engine import Violation
from sim.profiles import base
from sim.profiles.base import BaseProfile, BaseCtx, URL

PHASES = ["Idle", "Connect", "OpenSent", "OpenConfirm", "Established"]
MSG_EVENTS = ["open_valid", "open_hold0", "open_badver", "open_badas", "open_hold1", "open_hold2",
              "keepalive", "update", "notif_ver", "notif_other", "rr", "bad_marker", "bad_len", "bad_type"]
ENV_EVENTS = ["peer_close", "peer_reset", "timer", "advance", "stop", "start", "read_state"]

CRT = [5, 20, 29, 30, 31, 60]
IDLE_HOLD = [0, 1, 10, 30]
HOLD = [0, 3, 4, 9, 30, 90, 180, 65535]
ASNS = [1, 64512, 65535, 65536, 23456, 4200000000, 2 ** 32 - 1]


def swarm_config(rng, idx, default_every=7):
    """Per-run configuration (swarm): timers, AS numbers, capability switches, event weights."""
    cfg = dict(base.DEFAULT_CFG)
    if idx % default_every != 0:
        cfg["connect_retry_time"] = rng.pick(CRT)
        cfg["idle_hold_time"] = rng.pick(IDLE_HOLD)
        cfg["hold_time"] = rng.pick(HOLD)
        cfg["call_later"] = rng.pick([0, 15])
        if rng.chance(0.5):
            la = rng.pick(ASNS)
            ra = la if rng.chance(0.3) else rng.pick(ASNS)
            cfg["local_as"], cfg["remote_as"] = la, ra
        for k in ("four_bytes_as", "route_refresh", "cisco_route_refresh", "enhanced_route_refresh"):
            if rng.chance(0.25):
                cfg[k] = False
    # event-mix weights of this run
    cfg["w_msg"] = rng.pick([1, 2, 4])
    cfg["w_timer"] = rng.pick([1, 2, 4])
    cfg["w_close"] = rng.pick([0.2, 0.5, 1])
    cfg["w_rest"] = rng.pick([0.2, 0.5, 1])
    cfg["p_prompt"] = rng.pick([0.6, 0.9, 0.97, 1.0])
    cfg["p_refuse"] = rng.pick([0.05, 0.2, 0.5])
    cfg["max_ops"] = rng.pick([20, 30, 45, 60])
    # in some runs the completion of the agent's own closes is held back (peer not reading): the old
    # connection's connectionLost then arrives while the next attempt / session is already under way
    cfg["hold_cdone"] = rng.chance(0.12)
    # Adj-RIB maintenance switched on (off by default): the session layer must behave the same
    cfg["rib"] = rng.chance(0.1)
    return cfg


# Multi-step scenario templates: a quarter of the runs start with one of these before the random
# walk takes over.  Steps: ('reach', phase) | ('ev', event) | ('fire', n) fire n due calls |
# ('wait', n) let n timers fire / time pass WITHOUT answering pending connects or completing closes |
# ('conn_ok',) | ('conn_refuse',) | ('cdone',)
SCENARIOS = [
    # operator stop/start around a session that has run its timers; the restart's connect stays pending
    [("reach", "Established"), ("fire", 3), ("ev", "stop"), ("ev", "start"), ("wait", 4)],
    [("reach", "Established"), ("fire", 2), ("ev", "stop"), ("cdone",), ("ev", "start"), ("wait", 4), ("conn_ok",)],
    # version-error NOTIFICATION / peer close early in the session, then an unanswered reconnect
    [("reach", "OpenConfirm"), ("fire", 1), ("ev", "notif_ver"), ("cdone",), ("wait", 5)],
    [("reach", "OpenSent"), ("ev", "peer_close"), ("wait", 6)],
    [("reach", "OpenSent"), ("ev", "peer_close"), ("wait", 14)],      # ... unanswered for more than 240 s
    [("reach", "OpenSent"), ("ev", "notif_ver"), ("wait", 5)],
    # error close whose completion is held back while the next session comes up
    [("reach", "Established"), ("ev", "bad_marker"), ("wait", 2), ("conn_ok",), ("reach", "Established"), ("cdone",), ("wait", 3)],
    [("reach", "Established"), ("ev", "stop"), ("ev", "start"), ("conn_ok",), ("reach", "Established"), ("cdone",), ("wait", 3)],
    # connect-retry timer expiries before an attempt finally succeeds; then a long session
    [("wait", 3), ("conn_ok",), ("reach", "Established"), ("fire", 4)],
    [("conn_refuse",), ("wait", 2), ("conn_refuse",), ("wait", 4)],
    # hold time 0 session, loss, then a peer that accepts TCP and stays silent
    [("reach", "OpenSent"), ("ev", "open_hold0"), ("ev", "keepalive"), ("ev", "peer_reset"), ("wait", 2), ("conn_ok",), ("wait", 3)],
    # second OPEN / late first KEEPALIVE in OpenConfirm
    [("reach", "OpenConfirm"), ("ev", "open_valid"), ("fire", 2), ("ev", "keepalive"), ("fire", 4)],
    [("reach", "OpenConfirm"), ("fire", 2), ("ev", "keepalive"), ("fire", 3)],
    # peer closes in OpenSent, retry fails
    [("reach", "OpenSent"), ("ev", "peer_close"), ("wait", 2), ("conn_refuse",), ("wait", 4)],
    # operator stop and start, the first attempt after the start fails
    [("reach", "Established"), ("ev", "stop"), ("cdone",), ("ev", "start"), ("conn_refuse",), ("wait", 4)],
    [("ev", "stop"), ("ev", "start"), ("conn_refuse",), ("wait", 4)],
    # a session that existed, then one or two failed reconnects
    [("reach", "Established"), ("ev", "peer_reset"), ("wait", 2), ("conn_refuse",), ("wait", 2), ("conn_refuse",), ("wait", 4)],
    [("reach", "Established"), ("ev", "notif_other"), ("cdone",), ("wait", 2), ("conn_refuse",), ("wait", 4)],
    [("reach", "OpenConfirm"), ("ev", "peer_close"), ("wait", 2), ("wait", 3), ("conn_ok",), ("reach", "Established"), ("fire", 3)],
    # the operator starts the peer during the boot delay; the attempt is still pending when the delayed
    # automatic start comes due
    [("ev", "start"), ("wait", 3)],
    [("ev", "start"), ("wait", 1), ("conn_ok",), ("reach", "Established"), ("fire", 2)],
    # the connection is lost while a message is only partly received; the next session starts on a clean stream
    [("reach", "Established"), ("ev", "partial"), ("ev", "peer_reset"), ("wait", 2), ("conn_ok",), ("reach", "Established"), ("fire", 2)],
    [("reach", "OpenSent"), ("ev", "partial"), ("ev", "peer_close"), ("wait", 3), ("conn_ok",), ("reach", "Established"), ("fire", 2)],
]


class FsmCtx(BaseCtx):
    prop = "C01"
    judge_model = True
    strict_lengths = True   # KEEPALIVE != 19 and OPEN < 29 count as Bad Message Length (RFC 4271 6.1)
    soft = False            # soft: a model mismatch is not a verdict, the model is re-synchronised
    regime_exit = True      # stop judging when the single-connection regime (C12a) is left

    def __init__(self, cfg, tier):
        BaseCtx.__init__(self, cfg, tier)
        self.model = M.Model(cfg)
        self.rx = {}            # cid -> bytes delivered but not yet framed by the reference deframer
        self.rx_dead = set()    # cids whose stream hit a framing violation
        self.left_regime = False
        self.target = None
        self.as4 = {}           # cid -> both sides advertised capability 65 in this session
        self.agent_as4 = {}
        self.last_label = None

    # ------------------------------------------------------------------ generation
    def plan_target(self, rng):
        """A quarter of the runs start with a multi-step scenario; half of the others first steer to a
        (phase, event) cell chosen from the table."""
        self.script = []
        if rng.chance(0.25):
            self.script = [list(st) for st in rng.pick(SCENARIOS)]
            self.target = None
            self.planned = True
            self.stats["gen:scenario_runs"] += 1
            return
        if rng.chance(0.5):
            self.target = (rng.pick(PHASES), rng.pick(MSG_EVENTS + ENV_EVENTS + ["conn_ok", "conn_refuse", "conn_timeout", "cdone_late"]))
        else:
            self.target = None
        self.planned = True

    def choose(self, rng):
        """A message that was delivered in part is completed before anything else is sent on that connection
        (other events - timers, REST, a close or reset - may come in between)."""
        pr = getattr(self, "partial_rest", None)
        if pr is None:
            return self.choose_any(rng)
        k = None
        for i, c in enumerate(self.world.live_conns()):
            if c.cid == pr[0] and c.readable():
                k = i
        if k is None:
            self.partial_rest = None          # the connection has gone: the rest never arrives
            return self.choose_any(rng)
        if rng.chance(0.4):
            self.partial_rest = None
            return ["send", k, pr[1].hex(), []]
        op = self.choose_any(rng)
        if op is not None and op[0] == "send" and op[1] == k and self.partial_rest is pr:
            self.partial_rest = None
            return ["send", k, pr[1].hex(), []]
        if self.partial_rest is not pr and self.partial_rest is not None:
            self.partial_rest = None          # (no second partial delivery while one is open)
            return ["send", k, pr[1].hex(), []]
        return op

    def choose_any(self, rng):
        w = self.world
        if not getattr(self, "planned", False):
            self.plan_target(rng)
        if self.done or len(w.log) > 4000 or self.world.ops_done + self.world.ops_skipped >= self.cfg["max_ops"]:
            return None
        if w.exited:
            return None
        cfg = self.cfg
        live = w.live_conns()
        # --- scripted scenario first
        while getattr(self, "script", None):
            op = self.script_op(rng)
            if op is not None:
                return op
        # --- steering towards the target cell
        if self.target is not None:
            phase, ev = self.target
            if self.model.phase == phase:
                self.target = None
                op = self.event_op(rng, ev)
                if op is not None:
                    return op
            else:
                op = self.toward(rng, phase)
                if op is not None:
                    return op
                self.target = None
        # --- application-handler fault (profiles that set p_hfail): the n-th callback from now raises ENOSPC
        if cfg.get("p_hfail") and w.handler_fail_in is None and rng.chance(cfg["p_hfail"]):
            return ["hfail", rng.randrange(1, 4)]
        # --- TCP segmentation (profiles that set p_partial): the rest of a partly delivered message, or a new
        # partial delivery; in between the peer may also drop the connection
        if cfg.get("p_partial") and getattr(self, "partial_rest", None) is None and rng.chance(cfg["p_partial"]):
            op = self.event_op(rng, "partial")
            if op is not None:
                return op
        # --- setsockopt(TCP_MD5SIG) fails once, on the next attempt (profiles that set p_sockfail)
        if cfg.get("p_sockfail") and getattr(w, "sockopt_fail_next", None) is None and rng.chance(cfg["p_sockfail"]):
            return ["sockfail", rng.pick([12, 92])]
        # --- prompt environment: pending connects answered, closes completed
        for k, c in enumerate(live):
            if c.state == "connecting" and rng.chance(cfg["p_prompt"]):
                return ["conn_refuse", k] if rng.chance(cfg["p_refuse"]) else ["conn_ok", k]
            if c.closing() and not cfg.get("hold_cdone") and rng.chance(cfg["p_prompt"]):
                return ["cdone", k]
        # zero-delay work pending (deferred writes): usually run it first
        due = w.reactor.due()
        if due and due[0].time <= w.now() and rng.chance(0.9):
            return ["fire", rng.randrange(len(due))]
        # --- weighted choice among enabled event classes
        choices = []
        readable = [k for k, c in enumerate(live) if c.readable()]
        if readable:
            choices.append(("msg", cfg["w_msg"]))
            choices.append(("close", cfg["w_close"]))
        if due:
            choices.append(("timer", cfg["w_timer"]))
            choices.append(("advance", cfg["w_timer"] * 0.5))
        else:
            # nothing is scheduled at all: time can still pass (a model timer may be due although the
            # agent armed none)
            choices.append(("advance", cfg["w_timer"] * 0.5))
        choices.append(("rest", cfg["w_rest"]))
        for k, c in enumerate(live):
            if c.state == "connecting":
                choices.append(("connres", 1.0))
                break
        for k, c in enumerate(live):
            if c.closing():
                choices.append(("cdone", 0.15 if cfg.get("hold_cdone") else 1.0))
                break
        kind = rng.weighted(choices)
        if kind == "msg":
            return self.event_op(rng, rng.pick(MSG_EVENTS), rng.pick(readable))
        if kind == "close":
            return ["pclose", rng.pick(readable), rng.chance(0.5)]
        if kind == "timer":
            return ["fire", rng.randrange(len(due))]
        if kind == "advance":
            return self.advance_op(rng)
        if kind == "rest":
            return self.event_op(rng, rng.pick(["stop", "start", "read_state", "read_state", "poll"]))
        if kind == "connres":
            k = [k for k, c in enumerate(live) if c.state == "connecting"][0]
            return ["conn_refuse", k] if rng.chance(0.4) else ["conn_ok", k]
        if kind == "cdone":
            k = [k for k, c in enumerate(live) if c.closing()][0]
            return ["cdone", k]
        return None

    def script_op(self, rng):
        """Next op of the scenario script (None: step finished or not applicable -> look again)."""
        w = self.world
        step = self.script[0]
        kind = step[0]
        live = w.live_conns()
        if kind == "reach":
            if self.model.phase == step[1]:
                self.script.pop(0)
                return None
            step.append(0) if len(step) == 2 else None
            step[2] += 1
            op = self.toward(rng, step[1]) if step[2] < 12 else None
            if op is None:
                self.script = []
            return op
        if kind == "ev":
            self.script.pop(0)
            return self.event_op(rng, step[1])
        if kind in ("fire", "wait"):
            if step[1] <= 0:
                self.script.pop(0)
                return None
            step[1] -= 1
            due = w.reactor.due()
            if due:
                return ["fire", rng.randrange(len(due))]
            if kind == "wait":
                return ["advance", rng.pick([1.0, 30.0, 300.0])]
            self.script.pop(0)
            return None
        self.script.pop(0)
        if kind in ("conn_ok", "conn_refuse"):
            for k, c in enumerate(live):
                if c.state == "connecting":
                    return [kind, k]
            return None
        if kind == "cdone":
            for k, c in enumerate(live):
                if c.closing():
                    return ["cdone", k]
            return None
        return None

    def advance_op(self, rng):
        w = self.world
        nt = w.reactor.next_time()
        if nt is None:
            return ["advance", rng.pick([1.0, 30.0, 300.0])]
        gap = nt - w.now()
        if gap <= 0:
            return ["fire", 0]
        frac = rng.pick([0.001, 0.25, 0.5, 0.9, 0.999, 1.0])
        return ["advance", round(gap * frac, 6)]

    def cur_k(self):
        """Ordinal (among live connections) of the connection the model regards as current."""
        for k, c in enumerate(self.world.live_conns()):
            if c.cid == self.model.conn:
                return k
        return None

    def toward(self, rng, phase):
        """One op that moves the session towards `phase` along the normal path."""
        w = self.world
        m = self.model
        order = PHASES.index
        live = w.live_conns()
        for k, c in enumerate(live):
            if c.closing() and not self.cfg.get("hold_cdone"):
                return ["cdone", k]
        if m.phase == "Idle":
            if phase == "Idle":
                return None
            if m.stopped:
                return ["rest", "GET", URL + "manual-start", "ok"]
            if w.reactor.due():
                return ["fire", 0]
            return None
        if order(m.phase) > order(phase):
            # go back to Idle: peer closes / refuses
            k = self.cur_k()
            if k is None:
                return None
            if m.phase == "Connect":
                return ["conn_refuse", k]
            return ["pclose", k, True]
        k = self.cur_k()
        if k is None:
            return None
        if m.phase == "Connect":
            return ["conn_ok", k]
        if m.phase == "OpenSent":
            return ["send", k, base.gen_open(rng, self.cfg, "valid").hex(), []]
        if m.phase == "OpenConfirm":
            return ["send", k, rp.encode_keepalive().hex(), []]
        return None

    def msg_bytes(self, rng, ev):
        cfg = self.cfg
        as4 = self.as4.get(self.model.conn, False)
        if ev == "open_valid":
            return base.gen_open(rng, cfg, "valid")
        if ev == "open_hold0":
            return base.gen_open(rng, cfg, "hold0")
        if ev in ("open_badver", "open_badas", "open_hold1", "open_hold2"):
            return base.gen_open(rng, cfg, ev[5:])
        if ev == "keepalive":
            return rp.encode_keepalive()
        if ev == "update":
            return base.gen_update(rng, cfg, as4)
        if ev == "notif_ver":
            return base.gen_notif(rng, True)
        if ev == "notif_other":
            return base.gen_notif(rng, False)
        if ev == "rr":
            return base.gen_rr(rng)
        if ev == "bad_marker":
            return base.gen_bad_marker(rng)
        if ev == "bad_len":
            return base.gen_bad_len(rng)
        if ev == "bad_type":
            return base.gen_bad_type(rng)
        raise AssertionError(ev)

    def event_op(self, rng, ev, k=None):
        w = self.world
        live = w.live_conns()
        if ev in MSG_EVENTS:
            if k is None:
                k = self.cur_k()
                if k is None or not live[k].readable():
                    return None
            return ["send", k, self.msg_bytes(rng, ev).hex(), []]
        if ev == "partial":
            # only the first octets of a (valid) message arrive: not a message yet, nothing may happen
            if k is None:
                k = self.cur_k()
                if k is None or not live[k].readable():
                    return None
            msg = self.msg_bytes(rng, rng.pick(["keepalive", "update", "open_valid", "update"]))
            cut = rng.pick([1, 10, 18, 19, min(20, len(msg) - 1), rng.randrange(1, len(msg))])
            cut = max(1, min(cut, len(msg) - 1))
            self.partial_rest = (live[k].cid, msg[cut:])
            self.stats["gen:partial_message"] += 1
            return ["send", k, msg[:cut].hex(), []]
        if ev in ("peer_close", "peer_reset"):
            k = self.cur_k()
            if k is None or live[k].state != "connected":
                return None
            return ["pclose", k, ev == "peer_close"]
        if ev == "timer":
            due = w.reactor.due()
            return ["fire", rng.randrange(len(due))] if due else None
        if ev == "advance":
            return self.advance_op(rng)
        if ev == "stop":
            return ["rest", "GET", URL + "manual-stop", "ok"]
        if ev == "start":
            return ["rest", "GET", URL + "manual-start", "ok"]
        if ev == "read_state":
            return ["rest", "GET", URL + "state", "ok"]
        if ev == "poll":
            return ["rest", "GET", "/v1/", "none"]          # the liveness poll of a monitoring system
        if ev in ("conn_ok", "conn_refuse"):
            for k, c in enumerate(live):
                if c.state == "connecting":
                    return [ev, k]
            return None
        if ev == "conn_timeout":
            for c in live:
                if c.state == "connecting" and w.reactor.due():
                    return ["fire", rng.randrange(len(w.reactor.due()))]
            return None
        if ev == "cdone_late":
            return self.advance_op(rng)
        return None

    # ------------------------------------------------------------------ lock-step
    def frames_of(self, cid, chunk):
        """Feed a delivered chunk to the reference deframer of connection cid; return the frames
        completed by it (a framing violation is returned once, then the stream is dead)."""
        if cid in self.rx_dead:
            return []
        buf = self.rx.get(cid, b"") + chunk
        frames, rest = rp.deframe(buf, strict=self.strict_lengths)
        self.rx[cid] = rest
        if frames and frames[-1].error:
            self.rx_dead.add(cid)
            self.rx[cid] = b""
        return frames

    def derive_events(self, op, pos):
        w = self.world
        name = op[0]
        evs = []
        labels = []
        for e in w.log[pos:]:
            kind = e[2]
            if kind == "fire":
                if e[3] == "connect_timeout":
                    continue        # shows up as connect_failed below
                evs.append(("fire",))
                labels.append("timer")
            elif kind == "connected":
                evs.append(("conn_ok", e[3]))
                labels.append("conn_ok")
            elif kind == "connect_failed":
                if e[4] == "UserError":
                    continue        # the agent's own abort, not an environment event
                evs.append(("conn_fail", e[3]))
                labels.append("conn_" + {"TimeoutError": "timeout", "ConnectionRefusedError": "refused"}.get(e[4], e[4]))
            elif kind == "rx":
                cid = e[3]
                for f in self.frames_of(cid, bytes.fromhex(e[4])):
                    k, info, label = base.classify_frame(f)
                    if k == "open":
                        errs = self.model._open_errors(info)
                        label = "open_valid" if not errs else "open_err" + "".join(str(x) for x in sorted(errs))
                        if not errs and info.get("hold") == 0:
                            label = "open_hold0"
                        if cid == self.model.conn:
                            self.as4[cid] = bool(info.get("as4")) and self.agent_as4.get(cid, False)
                    evs.append(("msg", cid, k, info))
                    labels.append(label)
            elif kind == "closed":
                cid, who = e[3], e[4]
                if who == "peer":
                    evs.append(("peer_close", cid))
                    labels.append("peer_close")
                else:
                    evs.append(("close_done", cid))
                    labels.append("close_done")
            elif kind == "rest":
                path = e[4]
                if e[6] == 200 and e[5] == "ok" and path.endswith("/manual-stop"):
                    evs.append(("stop",))
                    labels.append("stop")
                elif e[6] == 200 and e[5] == "ok" and path.endswith("/manual-start"):
                    evs.append(("start",))
                    labels.append("start")
                else:
                    evs.append(("noop",))
                    labels.append("rest_read")
        return evs, labels

    def regime_check(self, toks):
        """C12(a) as the definition of the single-connection regime."""
        w = self.world
        for t in toks:
            if t[0] == "connect":
                for c in w.conns[:t[1]]:
                    tr = c.c.transport
                    ended = c.state == "disconnected" or c.c.aborted or (tr is not None and tr.disconnecting)
                    if not ended:
                        return False
        return True

    def note_open(self, toks):
        w = self.world
        for t in toks:
            if t[0] == "tx" and t[2] == "OPEN":
                cid = t[1]
                fr = rp.deframe(w.conns[cid].written)[0]
                for f in fr:
                    if f.type == rp.OPEN and not f.error:
                        try:
                            m = rp.decode_open(f.body)
                            self.agent_as4[cid] = any(c == 65 for c, _ in m.caps)
                        except ValueError:
                            m = None
                        if self.prop == "C01" and (m is None or m.version != 4 or m.true_as != self.cfg["local_as"]):
                            # the OPEN the agent emits must be one a conformant peer configured for this
                            # agent accepts: version 4 and the configured AS (in the field or in capability 65)
                            raise Violation("C01", "open", "agent-open-not-acceptable/%s" % (
                                "unparsable" if m is None else ("version" if m.version != 4 else "as")),
                                "OPEN sent on connection #%d: %s; configured local AS %s"
                                % (cid, "does not parse" if m is None else "version %s, AS %s (field %s)" % (m.version, m.true_as, getattr(m, "asn", "?")),
                                   self.cfg["local_as"]))
                        break

    def step(self, op):
        w = self.world
        if self.done:
            return
        t_before = w.now()
        pos = len(w.log)
        phase_before = self.model.phase
        if op[0] == "fire" and len(w.reactor.due()) > 1:
            self.stats["same_instant_choice"] += 1
        ran = w.apply(op)
        self.stats["op:" + op[0]] += 1
        if not ran:
            return
        now = w.now()
        for e in w.log[pos:]:
            if e[2] == "handler_fault":
                self.stats["handler_fault_fired:" + e[3]] += 1
        evs, labels = self.derive_events(op, pos)
        label = "+".join(labels) if labels else op[0]
        cell = "%s/%s" % (phase_before, label)
        toks, escapes, handler = self.observe(pos)
        self.check_escapes(escapes, cell)
        if self.done:
            return
        self.note_open(toks)
        if self.regime_exit and not self.regime_check(toks):
            self.left_regime = True
            self.done = True
            self.stats["left_regime"] += 1
            self.on_left_regime(cell)
            return
        self.cells.add(cell)
        self.trace.append(cell)
        for lb in labels:
            self.stats["ev:" + lb] += 1
        if self.judge_model:
            self.judge(op, t_before, now, evs, toks, cell, phase_before)
        if self.model.phase in ("OpenSent", "OpenConfirm", "Established"):
            self.nontrivial = True
        self.after_step(op, pos, evs, labels, toks, handler, cell)

    def on_left_regime(self, cell):
        pass

    def after_step(self, op, pos, evs, labels, toks, handler, cell):
        pass

    def judge(self, op, t_before, now, evs, toks, cell, phase_before):
        w = self.world
        m = self.model
        if self.soft:
            m.time_passes(now)
            m2 = M.match_events(m, evs, toks, now)
            if m2 is None or w.state() not in m2.reported():
                self.stats["model_resync"] += 1
                m2 = self.resync()
            self.model = m2
            return
        if now > t_before + M.EPS:
            missed = m.missed(now)
            if missed:
                name, t = missed[0]
                raise Violation(self.prop, "timer", "%s/missed-%s" % (phase_before, name),
                                "model %s was due at t=%.3f but the agent let time pass to t=%.3f without it "
                                "(state %s, config hold=%s idle_hold=%s connect_retry=%s)"
                                % (name, t, now, phase_before, self.cfg["hold_time"], self.cfg["idle_hold_time"],
                                   self.cfg["connect_retry_time"]))
            m.time_passes(now)
        m2 = M.match_events(m, evs, toks, now)
        if m2 is None:
            got = ",".join(M._fmt(t) if t[0] != "tx" or not isinstance(t[2], tuple)
                           else "tx%d:NOTIF(%d,%d)" % (t[1], t[2][1], t[2][2]) for t in toks)
            got_abs = ",".join(self.abs_tok(t) for t in toks) or "nothing"
            exp = M.describe_expected(m, evs, now)
            raise Violation(self.prop, "refine", "%s/got:%s" % (cell, got_abs),
                            "in %s on %s the agent did [%s]; the RFC 4271 profile allows %s"
                            % (phase_before, cell.split("/", 1)[1], got,
                               " then ".join(" | ".join("[" + ",".join(a) + "]" for a in e["allowed"]) for e in exp)),
                            {"expected": exp, "observed": [list(map(str, t)) for t in toks], "t": now})
        self.model = m2
        st = w.state()
        if st not in m2.reported():
            raise Violation(self.prop, "state", "%s/reports-%s-expected-%s" % (cell, st, "|".join(m2.reported())),
                            "after %s the agent reports state %s; the model is in %s" % (cell, st, m2.phase))
        if op[0] == "rest" and op[2].endswith("/state") and len(op) > 3 and op[3] == "ok":
            js = w.last_rest.get("json") or {}
            rst = (js.get("peer") or {}).get("fsm")
            if rst not in m2.reported():
                raise Violation(self.prop, "state", "%s/rest-reports-%s-expected-%s" % (cell, rst, "|".join(m2.reported())),
                                "GET state reports %r; the model is in %s" % (rst, m2.phase))

    def resync(self):
        """Soft mode: rebuild the model's discrete state from what the agent reports."""
        w = self.world
        m = M.Model(self.cfg)
        m.nconn = len(w.conns)
        st = w.state()
        m.phase = {"IDLE": "Idle", "ACTIVE": "Idle", "CONNECT": "Connect", "OPENSENT": "OpenSent",
                   "OPENCONFIRM": "OpenConfirm", "ESTABLISHED": "Established"}.get(st, "Idle")
        m.stopped = self.model.stopped
        m.deadline = None
        live = w.live_conns()
        if m.phase == "Connect":
            pend = [c.cid for c in live if c.state == "connecting"]
            m.conn = pend[-1] if pend else None
        elif m.phase != "Idle":
            up = [c.cid for c in live if c.readable()]
            m.conn = up[-1] if up else None
            try:
                m.H = int(w.factory.fsm.hold_time)
            except Exception:
                m.H = None
        m.closing = set(c.cid for c in live if c.closing())
        return m

    @staticmethod
    def abs_tok(t):
        if t[0] == "tx":
            if isinstance(t[2], tuple):
                return "NOTIF(%d,%d)" % (t[2][1], t[2][2])
            return t[2]
        return t[0]


class FsmProfile(BaseProfile):
    id = "C01"
    runs = {"quick": 40000, "thorough": 1500000}
    rule = ("one run = seeded swarm configuration + up to 60 environment ops (connect results, whole peer messages of "
            "the C01 alphabet - 30 % of the runs also deliver some messages in two pieces -, peer close/reset, explicit timer firings with tie index, partial time advances, operator "
            "stop/start/state via REST, delayed close completion); half of the runs first steer to a (model state, event) "
            "cell drawn from the table; non-trivial = reached OpenSent or beyond; distinct = distinct sequence of "
            "(model state, abstract event) cells")
    probes = ["gen:partial_message", "gen:scenario_runs", "ev:open_valid", "ev:open_hold0", "ev:open_err1", "ev:open_err2", "ev:open_err6", "ev:keepalive", "ev:update",
              "ev:notif(2,1)", "ev:notif(other)", "ev:rr", "ev:bad_marker", "ev:bad_length", "ev:bad_type",
              "ev:peer_close", "ev:close_done", "ev:conn_timeout", "ev:conn_refused", "ev:stop", "ev:start",
              "ev:timer", "same_instant_choice"]
    ctx_class = FsmCtx

    def gen_config(self, rng, idx, tier):
        cfg = swarm_config(rng, idx)
        if self.id == "C01" and rng.chance(0.12):
            # the application handler raises (storage full) when it is handed the peer's OPEN: the session
            # layer has acted on the OPEN by then and must go on as if nothing had happened
            cfg["p_hfail"] = rng.pick([0.05, 0.15])
            cfg["hfail_only"] = ["open_received"]
        if self.id == "C01" and rng.chance(0.3):
            # TCP segmentation: some messages arrive in two pieces (the first piece is not an event), and the peer
            # may drop the connection in between
            cfg["p_partial"] = rng.pick([0.05, 0.15])
        return cfg

    def new_ctx(self, cfg, tier):
        return self.ctx_class(cfg, tier)

    def simplify_op(self, op):
        return []


PROFILE = FsmProfile()
