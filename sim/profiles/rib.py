"""Profile `rib` (C19): Adj-RIB-In and the version counters track exactly the updates applied.

rib=True; peer UPDATEs over a small pool (6 IPv4 prefixes x 3 attribute sets, 3 flowspec rules,
3 VPNv4 routes): announce, withdraw, re-announce with same/different attributes, several
prefixes per message, withdraw of absent routes; REST send/update for the sent side; session
drops and re-establishment in between.  Oracle: a dictionary model stepped per UPDATE."""
import socket
import struct

from sim import refpeer as rp
from sim.engine import Violation
from sim.profiles import base
from sim.profiles.base import BaseProfile, BaseCtx, URL
from sim.world import canon

PREFIXES = ["10.1.0.0/16", "10.2.3.0/24", "192.168.0.0/17", "172.16.5.4/32", "100.64.0.0/10", "10.1.2.0/23", "0.0.0.0/0"]
ATTRSETS = [
    {"origin": 0, "path": [64999], "next_hop": "10.0.0.2", "med": 10},
    {"origin": 1, "path": [64999, 100], "next_hop": "10.0.0.2", "med": 20},
    {"origin": 2, "path": [300], "next_hop": "10.0.0.3"},
    # communities NOT in ascending order (neither numerically nor as text)
    {"origin": 0, "path": [64999, 7], "next_hop": "10.0.0.2", "communities": [(65001 << 16) | 20, (100 << 16) | 3, (9 << 16) | 70000 % 65536]},
]
# (destination, source, protocol, further components): the last two combine a type >= 10 with types 1..9
FLOW_RULES = [("192.88.2.0/24", None, None, b""), ("192.88.3.0/24", "10.9.0.0/16", None, b""), ("192.88.4.0/24", None, 6, b""),
              ("192.88.5.0/24", None, 17, bytes([0x0a, 0x81, 100])), ("192.88.6.0/24", None, 6, bytes([0x0b, 0x81, 46]))]
FLOW_ACTIONS = [bytes([0x80, 0x06, 0, 0, 0, 0, 0, 0]), bytes([0x80, 0x06, 0, 0, 0x49, 0x74, 0x24, 0x00]),
                bytes([0x80, 0x08, 0, 100, 0, 0, 0, 200])]
VPN_ROUTES = [(25, 100, 100, "11.11.11.11/32"), (26, 100, 100, "11.11.12.0/24"), (27, 200, 1, "11.11.11.11/32"),
              # prefix lengths that are not a multiple of 8, with significant bits in the last octet
              (28, 100, 100, "11.12.16.0/20"), (29, 100, 100, "11.12.32.0/20")]
VPN_RTS = [bytes([0x00, 0x02, 0, 100, 0, 0, 0, 1]), bytes([0x00, 0x02, 0, 100, 0, 0, 0, 2])]

FLOW_JSON = [{"1": "192.88.2.0/24"}, {"1": "192.88.3.0/24", "2": "10.9.0.0/16"}, {"1": "192.88.4.0/24", "3": "=6"}]
FLOW_ACT_JSON = [["traffic-rate:0:0"], ["traffic-rate:0:1000000"], ["redirect-vrf:100:200"]]
VPN_JSON = [{"label": [25], "rd": "100:100", "prefix": "11.11.11.11/32"}, {"label": [26], "rd": "100:100", "prefix": "11.11.12.0/24"},
            {"label": [27], "rd": "200:1", "prefix": "11.11.11.11/32"}]
VPN_RT_JSON = [["route-target:100:1"], ["route-target:100:2"]]


class RibCtx(BaseCtx):
    escape_is_violation = False
    exceptions_end_run = False
    prop = "C19"

    def __init__(self, cfg, tier):
        BaseCtx.__init__(self, cfg, tier)
        if cfg.get("handler") == "default":
            self.stats["gen:default_handler_runs"] += 1
        self.reset_model()
        self.stage = "connect"
        self.sessions = 0
        self.t_ka = None

    def reset_model(self):
        self.rx = {"ipv4": {}, "flowspec": {}, "mpls_vpn": {}}
        self.tx = {"ipv4": {}, "flowspec": {}, "mpls_vpn": {}}

    # ------------------------------------------------------------------ generation
    def cur_k(self):
        for k, c in enumerate(self.world.live_conns()):
            if c.readable():
                return k
        return None

    def choose(self, rng):
        w = self.world
        cfg = self.cfg
        if self.done or w.exited or w.ops_done + w.ops_skipped >= cfg["max_ops"]:
            return None
        live = w.live_conns()
        st = w.state()
        if st != "ESTABLISHED":
            self.est_ops = 0
        else:
            self.est_ops = getattr(self, "est_ops", 0) + 1
        for k, c in enumerate(live):
            if c.closing():
                if cfg.get("late_close") and not (st == "ESTABLISHED" and self.est_ops > cfg["late_close"]):
                    # the peer is slow to take our close: connectionLost of this connection is delivered
                    # only when the next session is up and has routes
                    if st in ("IDLE", "CONNECT") and not w.reactor.due() and not any(x.state == "connecting" for x in live):
                        return ["cdone", k]      # (the agent waits for the close: nothing else can happen)
                    continue
                if st == "ESTABLISHED":
                    self.stats["gen:late_close_during_next_session"] += 1
                return ["cdone", k]
        if st == "ESTABLISHED" and cfg.get("p_hfail") and w.handler_fail_in is None and rng.chance(cfg["p_hfail"]):
            return ["hfail", rng.randrange(1, 3)]
        if st in ("IDLE", "CONNECT"):
            for k, c in enumerate(live):
                if c.state == "connecting":
                    return ["conn_ok", k]
            if w.reactor.due():
                return ["fire", 0]
            return None
        k = self.cur_k()
        if k is None:
            return None
        if st == "OPENSENT":
            return ["send", k, cfg["peer_open"], []]
        if st == "OPENCONFIRM":
            return ["send", k, rp.encode_keepalive().hex(), []]
        # Established
        due = [i for i, c in enumerate(w.reactor.due()) if c.kind == "thread" and c.time <= w.now()]
        if due:
            return ["fire", due[0]]
        kind = rng.weighted([("ipv4", 6), ("flow", 2), ("vpn", 2), ("rest_ipv4", 2), ("rest_flow", 1), ("rest_vpn", 1),
                             ("query", 1), ("drop", 0.5), ("ka", 0.5), ("timer", 0.3)])
        if kind == "ipv4":
            return ["send", k, self.gen_ipv4(rng).hex(), []]
        if kind == "flow":
            return ["send", k, self.gen_flow(rng).hex(), []]
        if kind == "vpn":
            return ["send", k, self.gen_vpn(rng).hex(), []]
        if kind == "rest_ipv4":
            return ["rest", "POST", URL + "send/update", "ok", self.rest_ipv4(rng)]
        if kind == "rest_flow":
            return ["rest", "POST", URL + "send/update", "ok", self.rest_flow(rng)]
        if kind == "rest_vpn":
            return ["rest", "POST", URL + "send/update", "ok", self.rest_vpn(rng)]
        if kind in ("rest_flow", "rest_vpn") and False:
            pass
        if kind == "query" and rng.chance(0.25):
            # json_to_bin only converts: the tables and counters of the sent side must not move
            self.stats["gen:json_to_bin_request"] += 1
            return ["rest", "POST", URL + "json_to_bin", "ok", rng.pick([self.rest_flow, self.rest_vpn, self.rest_ipv4])(rng)]
        if kind == "query":
            which = rng.pick(["adj-rib-in", "adj-rib-out"])
            return ["rest", "POST", URL + which, "ok", {"data": sorted(set(rng.pick(PREFIXES) for _ in range(3)))}]
        if kind == "drop":
            how = rng.pick(["pclose", "reset", "notif", "stop"])
            if how == "stop":
                return ["rest", "GET", URL + "manual-stop", "ok"]
            if how == "notif":
                return ["send", k, rp.encode_notification(6, 4).hex(), []]
            return ["pclose", k, how == "pclose"]
        if kind == "ka":
            return ["send", k, rp.encode_keepalive().hex(), []]
        if w.reactor.due():
            return ["fire", 0]
        return ["send", k, rp.encode_keepalive().hex(), []]

    def attrs_for(self, i, as4):
        a = ATTRSETS[i]
        first = self.cfg["remote_as"]
        d = {"origin": a["origin"], "as_path": [(2, [first] + a["path"])], "next_hop": a["next_hop"]}
        if "med" in a:
            d["med"] = a["med"]
        if "communities" in a:
            d["communities"] = list(a["communities"])
        return d

    def gen_ipv4(self, rng):
        nl = sorted(set(rng.pick(PREFIXES) for _ in range(rng.randrange(0, 4))))
        wd = sorted(set(rng.pick(PREFIXES) for _ in range(rng.randrange(0, 3)))) if rng.chance(0.5) else []
        if wd and nl and rng.chance(0.15):
            # the same prefix in both fields of one UPDATE (RFC 4271 4.3: to be processed; the announcement
            # stands).  The table is judged, the counter is not (one change or two is not fixed by the property)
            wd = sorted(set(wd + [rng.pick(nl)]))
            self.stats["gen:prefix_withdrawn_and_announced_in_one_update"] += 1
        else:
            wd = [p for p in wd if p not in nl]
        if not nl and not wd:
            nl = [rng.pick(PREFIXES)]
        if wd and rng.chance(0.2):
            wd = wd + [rng.pick(wd)]              # a prefix listed twice among the withdrawn routes (redundant, legal)
            self.stats["gen:duplicate_withdrawn_prefix"] += 1
        attrs = self.attrs_for(rng.randrange(len(ATTRSETS)), False) if nl else {}
        if nl and rng.chance(0.2):
            # a prefix listed twice in the NLRI field of one UPDATE (redundant, legal)
            nl = nl + [rng.pick(nl)]
            self.stats["gen:duplicate_announced_prefix"] += 1
        if nl and rng.chance(0.05):
            # several hundred COMMUNITIES values (extended-length attribute)
            attrs = dict(attrs)
            attrs["communities"] = [(65001 << 16) | i for i in range(rng.pick([257, 300, 600]))]
            self.stats["gen:announcement_with_hundreds_of_communities"] += 1
        if nl and rng.chance(0.05):
            # announcement without any path attribute (Total Path Attribute Length 0): yabgp installs it
            attrs = {}
            self.stats["gen:announcement_without_attributes"] += 1
        dirty = None
        if rng.chance(0.25):
            dirty = rng.pick([0xFF, 0x55, 0x01])      # padding bits of the prefixes are not zero
            self.stats["gen:prefixes_with_nonzero_padding"] += 1
        raw = None
        if attrs and rng.chance(0.3):
            # the same attributes in another order on the wire (RFC 4271 asks the sender for ascending type
            # order with SHOULD only; the receiver takes any order)
            tlvs = rp.decode_attr_list(rp.encode_attrs(attrs, self.as4))
            rng.shuffle(tlvs)
            raw = b"".join(rp.attr_tlv(fl, code, val) for fl, code, val in tlvs)
            self.stats["gen:attributes_in_unusual_order"] += 1
        if attrs and raw is None and not self.as4 and rng.chance(0.15):
            # 2-octet session: an OLD-speaker style announcement that also carries AS4_PATH (always 4-octet members)
            raw = rp.encode_attrs(attrs, False) + rp.attr_tlv(0xC0, 17, bytes([2, 2]) + (70000).to_bytes(4, "big") + (4200000000).to_bytes(4, "big"))
            self.stats["gen:announcement_with_as4_path"] += 1
        msg = rp.encode_update(wd, attrs, nl, as4=self.as4, dirty=dirty, raw_attrs=raw)
        if attrs and rng.chance(0.06):
            # the NLRI field ends in an impossible prefix (length 33): an erroneous UPDATE - whatever else it
            # carries (withdrawals of present routes, good attributes) must not be applied
            body = msg[19:] + bytes([33, 10, 0, 0, 0, 1])
            self.stats["gen:update_with_invalid_nlri_field"] += 1
            return rp.frame(rp.UPDATE, body)
        return msg

    def base_attr_bytes(self):
        return rp.encode_attrs({"origin": 0, "as_path": [(2, [self.cfg["remote_as"]])]}, self.as4)

    def gen_flow(self, rng):
        i = rng.randrange(len(FLOW_RULES))
        nlri = rp.flowspec_nlri(*FLOW_RULES[i])
        if rng.chance(0.3):
            j = (i + 1) % len(FLOW_RULES)
            nlri += rp.flowspec_nlri(*FLOW_RULES[j])
        if rng.chance(0.35):
            raw = rp.mp_unreach(1, 133, nlri)
        else:
            raw = self.base_attr_bytes() + rp.mp_reach(1, 133, b"", nlri) + rp.ext_communities([rng.pick(FLOW_ACTIONS)])
            if rng.chance(0.3):
                # one UPDATE replaces a rule: MP_REACH of one and MP_UNREACH of another (RFC 4760 allows both)
                other = rp.flowspec_nlri(*FLOW_RULES[(i + 2) % len(FLOW_RULES)])
                raw += rp.mp_unreach(1, 133, other)
                self.stats["gen:mp_reach_and_unreach_in_one_update"] += 1
        return self.maybe_mixed(rng, raw)

    def gen_vpn(self, rng):
        i = rng.randrange(len(VPN_ROUTES))
        wd = rng.chance(0.35)
        nlri = rp.vpnv4_nlri(*VPN_ROUTES[i], withdraw=wd)
        if rng.chance(0.3):
            nlri += rp.vpnv4_nlri(*VPN_ROUTES[(i + 1) % len(VPN_ROUTES)], withdraw=wd)
        if wd:
            raw = rp.mp_unreach(1, 128, nlri)
        else:
            nh = bytes(8) + socket.inet_aton("2.2.2.2")
            raw = self.base_attr_bytes() + rp.mp_reach(1, 128, nh, nlri) + rp.ext_communities([rng.pick(VPN_RTS)])
            if rng.chance(0.3):
                raw += rp.mp_unreach(1, 128, rp.vpnv4_nlri(*VPN_ROUTES[(i + 2) % len(VPN_ROUTES)], withdraw=True))
                self.stats["gen:mp_reach_and_unreach_in_one_update"] += 1
        return self.maybe_mixed(rng, raw)

    def maybe_mixed(self, rng, raw):
        """RFC 4760 allows classic IPv4 NLRI / withdrawn routes next to an MP attribute in one UPDATE."""
        if not rng.chance(0.2):
            return rp.encode_update(raw_attrs=raw)
        wd = sorted(set(rng.pick(PREFIXES) for _ in range(rng.randrange(0, 3))))
        nl = []
        if raw[:3] != rp.mp_unreach(1, 1, b"")[:3] and rng.chance(0.6) and self.base_attr_bytes() in raw:
            nl = [p for p in sorted(set(rng.pick(PREFIXES) for _ in range(rng.randrange(1, 3)))) if p not in wd]
            raw = raw + rp.attr_tlv(0x40, 3, socket.inet_aton("10.0.0.2"))
        if not wd and not nl:
            wd = [rng.pick(PREFIXES)]
        self.stats["gen:mixed_mp_and_ipv4_updates"] += 1
        return rp.encode_update(wd, None, nl, raw_attrs=raw)

    def rest_ipv4(self, rng):
        nl = sorted(set(rng.pick(PREFIXES) for _ in range(rng.randrange(0, 3))))
        wd = sorted(set(rng.pick(PREFIXES) for _ in range(rng.randrange(0, 3)))) if rng.chance(0.5) else []
        wd = [p for p in wd if p not in nl]
        if not nl and not wd:
            nl = [rng.pick(PREFIXES)]
        b = {}
        if nl and not wd and rng.chance(0.06):
            self.stats["gen:rest_routes_without_attributes"] += 1
            return {"nlri": nl}
        if nl:
            i = rng.randrange(3)
            b["attr"] = {"1": ATTRSETS[i]["origin"], "2": [[2, ATTRSETS[i]["path"]]], "3": "10.0.0.1", "5": 100 + i}
            if rng.chance(0.4):
                del b["attr"]["5"]          # the default LOCAL_PREF (iBGP) is then filled in by the API
                self.stats["gen:rest_announce_without_local_pref"] += 1
            b["nlri"] = nl
            if rng.chance(0.12):
                # an attribute type yabgp has no encoder for (AS4_PATH): not put on the wire; tables and counters
                # follow the request as usual
                b["attr"]["17"] = [[2, [70000, 4200000000]]]
                self.stats["gen:rest_announce_with_attribute_without_encoder"] += 1
        if wd:
            b["withdraw"] = wd
        return b

    def rest_flow(self, rng):
        i = rng.randrange(3)
        if rng.chance(0.35):
            return self.rest_mixed(rng, {"attr": {"15": {"afi_safi": [1, 133], "withdraw": [FLOW_JSON[i]]}}})
        return self.rest_mixed(rng, {"attr": {"1": 0, "2": [], "5": 100, "14": {"afi_safi": [1, 133], "nexthop": "", "nlri": [FLOW_JSON[i]]},
                                              "16": rng.pick(FLOW_ACT_JSON)}})

    def rest_vpn(self, rng):
        i = rng.randrange(3)
        if rng.chance(0.35):
            return self.rest_mixed(rng, {"attr": {"15": {"afi_safi": [1, 128], "withdraw": [VPN_JSON[i]]}}})
        route = dict(VPN_JSON[i])
        if rng.chance(0.3):
            route["label"] = [rng.pick([25, 26, 27, 1000])]     # the same route re-announced with another label
            self.stats["gen:rest_vpn_other_label"] += 1
        return self.rest_mixed(rng, {"attr": {"1": 0, "2": [], "5": 100, "16": rng.pick(VPN_RT_JSON),
                                              "14": {"afi_safi": [1, 128], "nexthop": {"rd": "0:0", "str": "2.2.2.2"}, "nlri": [route]}}})

    def rest_mixed(self, rng, body):
        """One request that also withdraws classic IPv4 routes next to the MP attribute (RFC 4760 allows it)."""
        if rng.chance(0.2):
            body["withdraw"] = sorted(set(rng.pick(PREFIXES) for _ in range(rng.randrange(1, 3))))
            self.stats["gen:rest_mp_with_ipv4_withdraw"] += 1
        return body

    @property
    def as4(self):
        """AS numbers are 4 octets wide exactly when both OPENs of this session carry capability 65 (taken from the
        wire, not from the agent's own flag)."""
        w = self.world
        k = self.cur_k()
        if k is None:
            p = w.factory.fsm.protocol
            return bool(getattr(p, "fourbytesas", False))
        c = w.live_conns()[k]
        cache = self.__dict__.setdefault("_as4", {})
        if c.cid not in cache:
            try:
                mine = [f for f in rp.deframe(bytes(c.written))[0] if f.type == rp.OPEN and not f.error]
                peer = rp.decode_open(rp.deframe(bytes.fromhex(self.cfg["peer_open"]))[0][0].body)
                cache[c.cid] = bool(mine) and any(code == 65 for code, _ in rp.decode_open(mine[0].body).caps) \
                    and any(code == 65 for code, _ in peer.caps)
            except (ValueError, IndexError):
                p = w.factory.fsm.protocol
                return bool(getattr(p, "fourbytesas", False))
        return cache[c.cid]

    # ------------------------------------------------------------------ oracle
    def versions(self):
        p = self.world.factory.fsm.protocol
        if p is None:
            return None
        return {"rx": dict(p.receive_version), "tx": dict(p.send_version)}

    def step(self, op):
        w = self.world
        if self.done:
            return
        st_before = w.state()
        v_before = self.versions()
        proto_before = w.factory.fsm.protocol
        pos = len(w.log)
        ran = w.apply(op)
        if not ran:
            return
        if op[0] == "hfail":
            self.stats["op:hfail"] += 1
        toks, escapes, handler = self.observe(pos)
        self.check_escapes(escapes, "rib")
        if self.done:
            return
        if op[0] == "rest" and op[2].endswith("manual-stop"):
            # an operator stop is always followed by a start (this profile is about tables, not C13)
            w.apply(["rest", "GET", URL + "manual-start", "ok"])
        st = w.state()
        self.trace.append([op[0], st])
        # ---- session drop / re-establishment: tables are empty
        dropped = st_before == "ESTABLISHED" and st != "ESTABLISHED"
        if dropped:
            self.stats["session_drops"] += 1
            self.reset_model()
            self.flush_pending = proto_before
        # the tables are flushed when the connection has gone (connectionLost), which for a close
        # initiated by the agent is a later reactor turn than the state change
        fp = getattr(self, "flush_pending", None)
        if fp is not None and not getattr(fp.transport, "connected", 0):
            self.flush_pending = None
            self.stats["flush_checked_after_close"] += 1
            if fp.adj_rib_in.get("ipv4") or fp.adj_rib_out.get("ipv4"):
                raise Violation("C19", "flush", "rib-not-empty-after-drop",
                                "session dropped and connection closed, but Adj-RIB-In still holds %s / Adj-RIB-Out %s"
                                % (sorted(fp.adj_rib_in.get("ipv4", {}))[:5], sorted(fp.adj_rib_out.get("ipv4", {}))[:5]))
        if dropped:
            return
        if st == "ESTABLISHED" and st_before != "ESTABLISHED":
            self.sessions += 1
            self.nontrivial = True
            self.stats["sessions_established"] += 1
            self.reset_model()
            p = w.factory.fsm.protocol
            if p.adj_rib_in.get("ipv4") or any(p.receive_version.values()):
                raise Violation("C19", "flush", "rib-not-empty-at-establishment",
                                "new session: Adj-RIB-In %s versions %s" % (p.adj_rib_in.get("ipv4"), p.receive_version))
            return
        if st != "ESTABLISHED" or st_before != "ESTABLISHED":
            return
        v_after = self.versions()
        # ---- received UPDATEs
        for e in w.log[pos:]:
            if e[2] == "rx":
                for f in rp.deframe(bytes.fromhex(e[4]))[0]:
                    if not f.error and f.type == rp.UPDATE:
                        self.on_rx_update(f, handler, v_before, v_after)
        # ---- REST
        if op[0] == "rest":
            path = op[2]
            js = w.last_rest.get("json")
            if path.endswith("send/update") and isinstance(js, dict) and js.get("status") is True:
                self.on_tx_update(op[4], v_before, v_after)
            elif path.endswith("send/update") and isinstance(js, dict) and isinstance(op[4], dict) and op[4].get("nlri") \
                    and not op[4].get("attr") and not op[4].get("withdraw"):
                # routes without attributes: yabgp records the request in Adj-RIB-Out (with empty attributes)
                # before it refuses to send it; the table the property speaks of is that one, so the model follows
                self.stats["tx_request_saved_but_refused"] += 1
                self.on_tx_update(op[4], v_before, v_after)
            elif path.endswith("json_to_bin"):
                if v_before != v_after:
                    raise Violation("C19", "version", "json_to_bin-moved-versions",
                                    "POST json_to_bin (conversion only) moved the version counters: %s -> %s" % (v_before, v_after))
            elif path.endswith("adj-rib-in") and isinstance(js, dict):
                self.on_query(op[4]["data"], js, self.rx["ipv4"], "adj-rib-in")
            elif path.endswith("adj-rib-out") and isinstance(js, dict):
                self.on_query(op[4]["data"], js, self.tx["ipv4"], "adj-rib-out")

    def on_query(self, prefixes, js, table, which):
        self.stats["rib_queries"] += 1
        data = js.get("data") or {}
        for p in prefixes:
            got = data.get(p)
            present = bool(got)
            if p in table and table[p] in ("[]", "{'__d': []}", "None"):
                # a route stored with an empty attribute set answers like an absent one: not judged
                self.stats["rib_query_of_route_without_attributes(not judged)"] += 1
                continue
            if present != (p in table):
                raise Violation("C19", "rib-query", "%s/%s" % (which, "missing" if p in table else "stale"),
                                "POST %s for %s answered %s; model table %s" % (which, p, got, sorted(table)))

    def on_rx_update(self, f, handler, v_before, v_after):
        w = self.world
        p = w.factory.fsm.protocol
        fam_changed = {"ipv4": False, "flowspec": False, "mpls_vpn": False}
        try:
            d = rp.decode_update(f.body, self.as4)
        except ValueError:
            d = None
        if d is not None and any(h[0] == "on_update_error" for h in handler):
            # the reference decoder takes this UPDATE, the agent calls it malformed: its routes are lost
            raise Violation("C19", "rib-in", "good-update-reported-malformed",
                            "an UPDATE the reference decoder accepts (withdrawn %s, nlri %s) was reported as malformed and "
                            "not applied" % (d["withdrawn"], d["nlri"]))
        if d is None:
            # an erroneous UPDATE (not decodable by the reference either): nothing of it
            # is applied - tables and counters stay as they are
            self.stats["rx_erroneous_update"] += 1
            rib = p.adj_rib_in.get("ipv4", {})
            if sorted(rib) != sorted(self.rx["ipv4"]):
                raise Violation("C19", "rib-in", "erroneous-update-applied",
                                "an UPDATE reported as malformed changed Adj-RIB-In: %s; model %s" % (sorted(rib), sorted(self.rx["ipv4"])))
            self.version_check("rx", fam_changed, v_before, v_after, "erroneous UPDATE")
            return
        reps = [h for h in handler if h[0] == "update_received"]
        family = "ipv4"
        other = dict((c, (fl, bytes.fromhex(v))) for c, fl, v in d["attrs"].get("other", []))
        has_mp = 14 in other or 15 in other
        mp_skip = ()
        if has_mp:
            fams = []
            for code in (14, 15):
                if code not in other:
                    continue
                val = other[code][1]
                afi, safi = struct.unpack("!HB", val[:3])
                family = {(1, 133): "flowspec", (1, 128): "mpls_vpn"}.get((afi, safi))
                if family is None:
                    return
                fams.append(family)
                if code == 14:
                    nhl = val[3]
                    nlri = val[4 + nhl + 1:]
                else:
                    nlri = val[3:]
                keys = self.split_nlri(family, nlri)
                # what came with the announcement; an MP_UNREACH travelling in the same UPDATE is kept apart: whether
                # it belongs to the announced route's attributes is not fixed by the property
                attr_id = repr(sorted((c, v.hex()) for c, (fl, v) in other.items() if c not in (14, 15))) + \
                    repr(sorted((k, repr(v)) for k, v in d["attrs"].items() if k != "other"))
                rider = other[15][1].hex() if 15 in other else None
                tbl = self.rx[family]
                for k in keys:
                    if code == 14:
                        old_e = tbl.get(k)
                        if old_e is None or old_e[0] != attr_id:
                            fam_changed[family] = True
                        elif old_e[1] != rider:
                            mp_skip = (family,)     # same attributes, another MP_UNREACH rider: not judged
                            self.stats["version_not_judged(mp_unreach_rider_differs)"] += 1
                        tbl[k] = (attr_id, rider)
                    else:
                        if k in tbl:
                            fam_changed[family] = True
                            del tbl[k]
            if len(fams) == 2:
                self.stats["rx_updates_with_mp_reach_and_unreach"] += 1
            family = fams[0]
            self.stats["rx_%s_updates" % family] += 1
        if d["withdrawn"] or d["nlri"] or not has_mp:
            tbl = self.rx["ipv4"]
            payload = None
            if len(reps) == 1:
                payload = dict_get(reps[0][2], "attr")
            for pfx in d["withdrawn"]:
                if pfx in tbl:
                    fam_changed["ipv4"] = True
                    del tbl[pfx]
                else:
                    self.stats["withdraw_of_absent_route"] += 1
            for pfx in d["nlri"]:
                aid = repr(payload)
                if pfx not in tbl:
                    fam_changed["ipv4"] = True
                elif tbl[pfx] != aid:
                    fam_changed["ipv4"] = True
                    self.stats["reannounce_changed_attrs"] += 1
                else:
                    self.stats["reannounce_same_attrs"] += 1
                tbl[pfx] = aid
            self.stats["rx_ipv4_updates"] += 1
        # Adj-RIB-In equals the model (after every UPDATE, whatever its family)
        tbl = self.rx["ipv4"]
        rib = p.adj_rib_in.get("ipv4", {})
        if sorted(rib) != sorted(tbl):
            raise Violation("C19", "rib-in", "prefix-set-differs/%s" % ("extra" if set(rib) - set(tbl) else "missing"),
                            "after UPDATE (withdrawn %s, nlri %s%s) Adj-RIB-In holds %s; applying the updates in order gives %s"
                            % (d["withdrawn"], d["nlri"], ", with an MP attribute" if has_mp else "", sorted(rib), sorted(tbl)))
        for pfx in tbl:
            if repr(canon(rib[pfx])) != tbl[pfx]:
                raise Violation("C19", "rib-in", "attributes-differ",
                                "Adj-RIB-In[%s] = %s; the last announcement carried %s" % (pfx, canon(rib[pfx]), tbl[pfx]))
        if has_mp and (d["withdrawn"] or d["nlri"]):
            family = family + "+ipv4"
        skip = (("ipv4",) if set(d["withdrawn"]) & set(d["nlri"]) else ()) + tuple(mp_skip)
        self.version_check("rx", fam_changed, v_before, v_after, "received UPDATE (%s)" % family, skip)

    @staticmethod
    def split_nlri(family, nlri):
        keys = []
        i = 0
        while i < len(nlri):
            if family == "flowspec":
                ln = nlri[i]
                keys.append(nlri[i + 1:i + 1 + ln].hex())
                i += 1 + ln
            else:
                bits = nlri[i]
                nb = (bits + 7) // 8
                raw = nlri[i + 1:i + 1 + nb]
                keys.append(raw[3:].hex())         # RD + prefix identify the route; the label is an attribute
                i += 1 + nb
        return keys

    def on_tx_update(self, body, v_before, v_after):
        attr = dict(body.get("attr") or {})
        if attr and "5" not in attr and self.cfg["local_as"] == self.cfg["remote_as"]:
            attr["5"] = 100          # documented default LOCAL_PREF on iBGP sessions
        fam_changed = {"ipv4": False, "flowspec": False, "mpls_vpn": False}
        if "14" in attr or "15" in attr:
            code = "14" if "14" in attr else "15"
            fam = {(1, 133): "flowspec", (1, 128): "mpls_vpn"}[tuple(attr[code]["afi_safi"])]
            tbl = self.tx[fam]
            if code == "14":
                aid = repr(sorted((k, repr(v)) for k, v in attr.items() if k != "14")) + repr(attr["14"].get("nexthop"))
                for n in attr["14"]["nlri"]:
                    k = repr(sorted(n.items()))
                    if tbl.get(k) != aid:
                        fam_changed[fam] = True
                    tbl[k] = aid
            else:
                for n in attr["15"]["withdraw"]:
                    k = repr(sorted(n.items()))
                    if k in tbl:
                        fam_changed[fam] = True
                        del tbl[k]
            self.stats["tx_%s_updates" % fam] += 1
            what = "sent %s update" % fam
            if body.get("withdraw"):
                # classic IPv4 withdrawals in the same request
                tbl = self.tx["ipv4"]
                for pfx in body["withdraw"]:
                    if pfx in tbl:
                        fam_changed["ipv4"] = True
                        del tbl[pfx]
                what += " + ipv4 withdraw"
                rib = self.world.factory.fsm.protocol.adj_rib_out.get("ipv4", {})
                if sorted(rib) != sorted(tbl):
                    raise Violation("C19", "rib-out", "prefix-set-differs",
                                    "after REST send/update %s Adj-RIB-Out holds %s; model %s" % (body, sorted(rib), sorted(tbl)))
        else:
            tbl = self.tx["ipv4"]
            aid = repr(sorted(attr.items()))
            for pfx in body.get("withdraw") or []:
                if pfx in tbl:
                    fam_changed["ipv4"] = True
                    del tbl[pfx]
            for pfx in body.get("nlri") or []:
                if tbl.get(pfx) != aid:
                    fam_changed["ipv4"] = True
                tbl[pfx] = aid
            self.stats["tx_ipv4_updates"] += 1
            what = "sent ipv4 update"
            p = self.world.factory.fsm.protocol
            rib = p.adj_rib_out.get("ipv4", {})
            if sorted(rib) != sorted(tbl):
                raise Violation("C19", "rib-out", "prefix-set-differs",
                                "after REST send/update %s Adj-RIB-Out holds %s; model %s" % (body, sorted(rib), sorted(tbl)))
        self.version_check("tx", fam_changed, v_before, v_after, what)

    def version_check(self, direction, fam_changed, v_before, v_after, what, skip=()):
        name = {"rx": "received", "tx": "send"}[direction]
        for fam in ("ipv4", "flowspec", "mpls_vpn", "sr_policy"):
            if fam in skip:
                self.stats["version_not_judged(prefix_in_both_fields)"] += 1
                continue
            b = v_before[direction].get(fam)
            a = v_after[direction].get(fam)
            ch = fam_changed.get(fam, False)
            self.cells.add("%s/%s/%s" % (direction, fam, "changed" if ch else "unchanged"))
            if ch:
                self.stats["version_should_increase:%s:%s" % (direction, fam)] += 1
            if ch and not (a > b):
                raise Violation("C19", "version", "%s/%s/table-changed-version-did-not-increase" % (name, fam),
                                "%s changed the %s table but version/%s[%s] stayed %s" % (what, fam, name, fam, a))
            if not ch and a != b:
                raise Violation("C19", "version", "%s/%s/version-moved-without-change" % (name, fam),
                                "%s did not change the %s table but version/%s[%s] went %s -> %s" % (what, fam, name, fam, b, a))
        # the other direction must not move at all
        other = "tx" if direction == "rx" else "rx"
        if v_before[other] != v_after[other]:
            raise Violation("C19", "version", "%s-update-moved-%s-versions" % (direction, other),
                            "%s moved the %s versions: %s -> %s" % (what, other, v_before[other], v_after[other]))


def dict_get(canon_dict, key):
    if isinstance(canon_dict, dict) and "__d" in canon_dict:
        for k, v in canon_dict["__d"]:
            if k == key:
                return v
    return None


class RibProfile(BaseProfile):
    id = "C19"
    runs = {"quick": 12000, "thorough": 400000}
    rule = ("one run = rib=True session(s) with a history of 20-80 ops: peer UPDATEs over a pool of 6 IPv4 prefixes x 3 attribute "
            "sets, 3 flowspec rules x 3 actions, 3 VPNv4 routes x 2 route targets (announce, withdraw, re-announce same/different "
            "attributes, several routes per message, withdraw of absent routes), REST send/update for the sent side (IPv4, "
            "flowspec, VPNv4), adj-rib-in/out queries, session drops (close, reset, NOTIFICATION, operator stop) and "
            "re-establishment; 30 % of the announcements carry their attributes in a shuffled wire order; 25 % of the runs hold back the completion of the agent's own closes until the next session has routes, 25 % let the application handler raise ENOSPC at message callbacks; non-trivial = reached Established; distinct = distinct (op, state) sequence; 20 % of the peer OPENs advertise ADD-PATH (nothing agreed); MP_REACH+MP_UNREACH in one UPDATE, duplicate prefixes in one NLRI field, 257-600 communities, REST announcements naming AS4_PATH")
    probes = ["gen:mp_reach_and_unreach_in_one_update", "gen:announcement_with_hundreds_of_communities", "gen:rest_announce_with_attribute_without_encoder", "gen:duplicate_announced_prefix", "gen:rest_mp_with_ipv4_withdraw", "gen:default_handler_runs", "op:hfail", "gen:late_close_during_next_session", "gen:attributes_in_unusual_order", "gen:duplicate_withdrawn_prefix", "gen:prefixes_with_nonzero_padding", "gen:rest_announce_without_local_pref", "gen:mixed_mp_and_ipv4_updates", "rx_ipv4_updates", "rx_flowspec_updates", "rx_mpls_vpn_updates", "tx_ipv4_updates", "tx_flowspec_updates",
              "tx_mpls_vpn_updates", "session_drops", "withdraw_of_absent_route", "reannounce_same_attrs",
              "reannounce_changed_attrs", "rib_queries", "version_should_increase:rx:flowspec",
              "version_should_increase:rx:mpls_vpn", "version_should_increase:tx:flowspec"]

    def gen_config(self, rng, idx, tier):
        cfg = dict(base.DEFAULT_CFG)
        cfg["rib"] = True
        cfg["afi_safi"] = ["ipv4", "flowspec"]   # ("vpnv4" cannot be configured: get_bgp_config fails on ext_nexthop)
        cfg["call_later"] = 0
        cfg["idle_hold_time"] = 1
        if rng.chance(0.45):
            cfg["local_as"] = cfg["remote_as"] = 65001
        if rng.chance(0.3):
            cfg["four_bytes_as"] = False
        if cfg["local_as"] != cfg["remote_as"] and rng.chance(0.12):
            cfg["local_as"] = rng.pick([70000, 4200000000])     # (capability 65 is then advertised whatever four_bytes_as says)
        cfg["max_ops"] = rng.pick([20, 40, 80])
        cfg["late_close"] = rng.pick([2, 4, 8]) if rng.chance(0.25) else None
        if rng.chance(0.2):
            # the stock DefaultHandler (message log on the simulated file system) is the application
            cfg["handler"] = "default"
            cfg["write_disk"] = True
            cfg["rotate_bytes"] = rng.pick([2000, 10 ** 9])
        cfg["p_hfail"] = rng.pick([0.03, 0.1]) if rng.chance(0.25) else None
        caps = [rp.cap_mp(1, 1), rp.cap_mp(1, 133), rp.cap_mp(1, 128), rp.cap_rr()]
        if rng.chance(0.7):
            caps.append(rp.cap_as4(cfg["remote_as"]))
        if rng.chance(0.2):
            # the peer advertises ADD-PATH for IPv4 unicast; the agent (add_path unset) does not: nothing is agreed
            caps.append(rp.cap_addpath(1, 1, rng.pick([1, 2, 3])))
        cfg["peer_open"] = rp.encode_open(cfg["remote_as"], rng.pick([0, 90, 180]), "2.2.2.2", caps).hex()
        return cfg

    def new_ctx(self, cfg, tier):
        return RibCtx(cfg, tier)


PROFILE = RibProfile()
