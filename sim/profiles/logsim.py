"""Profile `logsim` (C20): the on-disk message log stays well-formed and gap-free across
rotation, restart and crash.

Real DefaultHandler (+ the agent's real start-up path) on SimFS; the events are real protocol
activity with the reference peer.  Crash model: process kill (user-space buffers lost) or power
loss (of every un-synced tail an arbitrary prefix survives = torn write; optionally a never
synced new file disappears).  Final audit of all files in name order.
"""
import json
import posixpath

from sim import refpeer as rp
from sim import simfs
from sim.engine import Violation
from sim.world import World
from sim.profiles import base
from sim.profiles.base import BaseProfile, BaseCtx, URL

KEYS = {"t", "seq", "type", "msg"}


def msgdir(cfg):
    return "/data/bgp/%s/msg" % cfg["remote_addr"].lower()


def audit(fs, MSGDIR, prop="C20"):
    """Audit all log files in name order.  Raises Violation."""
    if MSGDIR not in fs.dirs:
        return 0, 0
    names = fs.listing(MSGDIR)
    expected = 1
    nlines = 0
    nfrag = 0
    present = set()
    for name in names:
        path = posixpath.join(MSGDIR, name)
        content = fs.content(path)            # bytes; offsets below are byte offsets
        off = 0
        lines = content.split(b"\n")
        for idx, raw in enumerate(lines):
            start = off
            off += len(raw) + 1
            last = idx == len(lines) - 1
            if last and raw == b"":
                continue
            line = raw.decode("utf-8", "replace")
            rec = None
            try:
                rec = json.loads(raw.decode("utf-8"))
            except ValueError:
                rec = None
            if not (isinstance(rec, dict) and KEYS <= set(rec)):
                end = start + len(raw)
                # a fragment left by a crash is tolerated iff it stands alone on its line
                left = False
                glued = False
                for snap in fs.crashes:
                    if path in snap and not snap[path][1]:
                        L = snap[path][0]
                        if start < L <= end:
                            left = True
                            if end > L:
                                glued = True
                if left and not glued and raw != b"":
                    nfrag += 1
                    continue
                if left and glued:
                    raise Violation(prop, "audit", "record-glued-to-crash-fragment",
                                    "file %s: after the crash left the fragment %r, the next record was appended to the same "
                                    "line: %r" % (name, line[:40], line[:160]))
                raise Violation(prop, "audit", "malformed-line/%s" % ("empty" if raw == b"" else "not-a-record"),
                                "file %s line %d is not a complete JSON record with keys t,seq,type,msg: %r" % (name, idx + 1, line[:160]))
            if rec["seq"] != expected:
                kind = "restarts-at-%d" % rec["seq"] if rec["seq"] < expected and rec["seq"] <= 1 else (
                    "reused" if rec["seq"] < expected else "gap")
                raise Violation(prop, "audit", "sequence-%s" % kind,
                                "file %s line %d has seq %s; the previous complete record had %d (files: %s)"
                                % (name, idx + 1, rec["seq"], expected - 1, names))
            expected += 1
            nlines += 1
            present.add((path, line))
    for path, line in fs.acked:
        if (path, line) not in present:
            raise Violation(prop, "audit", "acknowledged-record-missing",
                            "a record that had been written, flushed and fsynced is not in %s any more: %r" % (path, line[:120]))
    return nlines, nfrag


class LogCtx(BaseCtx):
    escape_is_violation = False
    prop = "C20"

    def __init__(self, cfg, tier, arm=None):
        self.fs = simfs.SimFS()
        if arm is not None:
            self.fs.armed, self.fs.arm_mode, self.fs.arm_keep, self.fs.arm_lose_files = arm
        self.cfg = cfg
        self.tier = tier
        import collections
        self.stats = collections.Counter()
        self.cells = set()
        self.trace = []
        self.nontrivial = False
        self.world = World(cfg, fs=self.fs)
        self.pos = len(self.world.log)
        self.tx_off = {}
        self.done = False
        self.t0 = self.world.now()
        self.crashes_left = cfg["n_crashes"]
        self.restarts_left = cfg["n_restarts"]
        self.clock_steps_left = cfg.get("clock_steps", 0)
        self.io_errors_left = cfg.get("io_errors", 0)
        self.sent_sweep = False
        self.reported = 0

    # ------------------------------------------------------------------ generation
    def choose(self, rng):
        w = self.world
        cfg = self.cfg
        n = w.ops_done + w.ops_skipped
        if self.done or n >= cfg["max_ops"]:
            return None
        if w.exited:
            return ["restart"]
        # crash / restart injection
        if self.crashes_left > 0 and self.fs.armed is None and rng.chance(cfg["p_crash"]):
            self.crashes_left -= 1
            mode = rng.pick(["kill", "power", "power"])
            keep = None
            if mode == "power":
                keep = rng.pick([0, 1, 2, 5, 17, 40, rng.randrange(0, 200), None])
            return ["arm", rng.randrange(1, cfg["crash_window"]), mode, keep, rng.chance(0.3)]
        if self.io_errors_left > 0 and self.fs.io_armed is None and rng.chance(0.15):
            self.io_errors_left -= 1
            return ["ioerr", rng.randrange(1, cfg["crash_window"]), rng.pick([28, 28, 5]),
                    rng.pick([0, 0, 1, 7, 40, rng.randrange(0, 300)])]
        if self.clock_steps_left > 0 and rng.chance(0.08):
            self.clock_steps_left -= 1
            return ["clockstep", rng.pick([-86400.0, -3600.0, -60.0, -1.5, -0.25, 0.5, 3600.0])]
        if self.restarts_left > 0 and rng.chance(cfg["p_restart"]):
            self.restarts_left -= 1
            return ["restart"]
        return self.event_op(rng)

    def event_op(self, rng):
        w = self.world
        cfg = self.cfg
        live = w.live_conns()
        for k, c in enumerate(live):
            if c.closing():
                return ["cdone", k]
        st = w.state()
        if st in ("IDLE", "CONNECT"):
            for k, c in enumerate(live):
                if c.state == "connecting":
                    if rng.chance(0.4 if cfg.get("sweep_history") else 0.2):
                        # the OS error text goes into the log; on a localised host it is not ASCII
                        return ["conn_refuse", k, rng.pick([None, "Connexion refus\u00e9e", "\u62d2\u7edd\u8fde\u63a5", "Verbindungsaufbau abgelehnt",
                                                            "\u63a5\u7d9a\u3092\u62d2\u5426\u3055\u308c\u307e\u3057\u305f"])]
                    return ["conn_ok", k]
            if w.reactor.due():
                return ["fire", 0]
            return None
        k = None
        for i, c in enumerate(live):
            if c.readable():
                k = i
        if k is None:
            return ["fire", 0] if w.reactor.due() else None
        if st == "OPENSENT":
            return ["send", k, cfg["peer_open"], []]
        if st == "OPENCONFIRM":
            return ["send", k, rp.encode_keepalive().hex(), []]
        kind = rng.weighted([("update", 6), ("bad_update", 1.5), ("keepalive", 1.5), ("rr", 1), ("notif", 0.7), ("close", 0.4),
                             ("big_update", 1)])
        if kind == "update":
            return ["send", k, base.gen_update(rng, cfg, True).hex(), []]
        if kind == "big_update":
            nl = ["10.%d.%d.0/24" % (rng.randrange(256), rng.randrange(256)) for _ in range(rng.randrange(5, 60))]
            attrs = {"origin": 0, "as_path": [(2, [cfg["remote_as"], 100, 200, 300])], "next_hop": "10.0.0.2",
                     "communities": [rng.randrange(1, 2 ** 31) for _ in range(rng.randrange(0, 10))]}
            return ["send", k, rp.encode_update([], attrs, nl, as4=True).hex(), []]
        if kind == "bad_update":
            from sim.profiles import hostile
            body = hostile.structured_update(rng, cfg)
            return ["send", k, rp.frame(rp.UPDATE, hostile.mutate(rng, body)).hex(), []]
        if kind == "keepalive":
            return ["send", k, rp.encode_keepalive().hex(), []]
        if kind == "rr":
            return ["send", k, base.gen_rr(rng).hex(), []]
        if kind == "notif":
            if rng.chance(0.5):
                # a NOTIFICATION with a long data field (legal up to 4075 octets)
                data = bytes(rng.randrange(1, 256) for _ in range(rng.pick([100, 1800, 2500, 4075])))
                return ["send", k, rp.encode_notification(6, rng.pick([1, 4, 6]), data).hex(), []]
            return ["send", k, base.gen_notif(rng).hex(), []]
        return ["pclose", k, rng.chance(0.5)]

    # ------------------------------------------------------------------ oracle
    def check_boot(self):
        w = self.world
        if w.exited and not w.crashed:
            why = [e for e in w.log if e[2] in ("exit", "exc") and e[3] == "boot"]
            if why and why[-1][2] == "exc" and "injected I/O error" in str(why[-1][4:]):
                # the storage refused a write during start-up: not "because of its own log"
                self.stats["start_refused_by_storage_error(tolerated)"] += 1
                return
            MSGDIR = msgdir(self.cfg)
            listing = self.fs.listing(MSGDIR) if MSGDIR in self.fs.dirs else []
            tail = ""
            if listing:
                tail = self.fs.content(posixpath.join(MSGDIR, listing[-1]))[-60:].decode("utf-8", "replace")
            kind = "SystemExit" if any(e[2] == "exit" for e in why) else "exception"
            raise Violation("C20", "startup", "refused-to-start/%s" % kind,
                            "agent start-up ended with %s (%s); newest log file %s ends with %r"
                            % (kind, [e[3:] for e in why][-1:], listing[-1:] or None, tail))

    def step(self, op):
        w = self.world
        if self.done:
            return
        if op[0] == "noop":
            if w.exited:
                self.note_crashes(0)
            return
        if op[0] == "arm" and self.cfg.get("arm_absolute") and w.ops_done + w.ops_skipped == 0 and not getattr(self, "_rearmed", False):
            # reproducer of a sweep member: the crash point is an absolute call number counted from
            # the very first boot, so the World is rebuilt with the file system armed beforehand
            self._rearmed = True
            self.fs = simfs.SimFS()
            self.fs.armed, self.fs.arm_mode, self.fs.arm_keep = op[1], op[2], op[3]
            self.fs.arm_lose_files = bool(op[4]) if len(op) > 4 else False
            self.world = World(self.cfg, fs=self.fs)
            self.note_crashes(0)
            return
        pos = len(w.log)
        fsyncs = self.fs.fsyncs
        nfiles = len(self.fs.files)
        self._io_before = len(self.fs.io_errors)
        ran = w.apply(op)
        if not ran:
            return
        if op[0] == "clockstep":
            self.stats["clock_step:%s" % ("back" if op[1] < 0 else "forward")] += 1
        if op[0] == "restart":
            self.stats["restarts"] += 1
            self.check_boot()
            # after every (re)start the log on disk must already be consistent
            audit(self.fs, msgdir(self.cfg))
        logging_cb = ("on_update_error", "update_received", "send_open", "open_received", "route_refresh_received",
                      "notification_received", "on_connection_lost", "on_connection_failed")
        k_rep = 0
        for e in w.log[pos:]:
            if e[2] == "h" and (e[3] in logging_cb or (e[3] == "keepalive_received" and self.cfg["write_keepalive"])):
                self.reported += 1
                k_rep += 1
        # every reported event is written, flushed and fsynced before the callback returns - unless the process
        # died or the storage refused during this very step
        if k_rep > self.fs.fsyncs - fsyncs and not any(e[2] == "crash" for e in w.log[pos:]) \
                and len(self.fs.io_errors) == self._io_before and not w.exited:
            raise Violation("C20", "event", "reported-event-not-made-durable",
                            "%d event(s) were reported to the handler in this step (%s) but only %d record(s) were written and "
                            "synced, without a crash or storage error"
                            % (k_rep, [e[3] for e in w.log[pos:] if e[2] == "h"][:4], self.fs.fsyncs - fsyncs))
        self.stats["records_acked"] += self.fs.fsyncs - fsyncs
        if self.fs.fsyncs > fsyncs:
            self.nontrivial = True
        if len(self.fs.files) > nfiles and op[0] != "restart":
            self.stats["rotations"] += len(self.fs.files) - nfiles
        self.note_crashes(pos)
        self.trace.append([op[0], w.state(), self.fs.fsyncs - fsyncs])
        self.cells.add("%s/%s" % (op[0], "crashed" if w.crashed else w.state()))

    def note_crashes(self, pos):
        for e in self.world.log[pos:]:
            if e[2] == "crash":
                self.stats["crash:%s" % e[5]] += 1
                self.stats["crash_in:%s" % e[4]] += 1
                if e[4] == "fsync" and e[5] == "power":
                    self.stats["torn_tail_candidates"] += 1
            elif e[2] == "exc" and e[3] != "boot" and len(self.fs.io_errors) > getattr(self, "_io_before", 0) \
                    and "injected I/O error" in str(e[4:]):
                # the storage refused the write: the handler cannot do better than raise (the record is
                # still buffered or already in the file; the audit checks what becomes of it)
                self.stats["io_error_escaped_to_reactor"] += 1
            elif e[2] in ("exc", "exit") and e[3] != "boot":
                # an exception escaping into the reactor while an event was being reported: the event
                # has no line although no crash intervened
                raise Violation("C20", "event", "report-raised/%s" % (e[4] if e[2] == "exc" else "SystemExit"),
                                "while reporting an event (%s) the agent raised %s: the event was not logged although "
                                "no crash happened (log files: %s)"
                                % (e[3], e[4:], self.fs.listing(msgdir(self.cfg)) if msgdir(self.cfg) in self.fs.dirs else []))

    def finish(self):
        w = self.world
        if self.done:
            return
        if not w.exited:
            self.fs.process_exit()
        nlines, nfrag = audit(self.fs, msgdir(self.cfg))
        # every reported event has its line: without a crash exactly, with crashes at most one event per
        # crash (the one being written) may be missing
        # (a record whose flush failed stays in the writer's buffer until the next flush, one whose fsync
        # failed stays un-synced until the next fsync: a crash in between takes it along, so each injected
        # storage error allows one more missing record - only in a run with a crash)
        ncrash = len(self.fs.crashes)
        nflush_err = len(self.fs.io_errors) if ncrash else 0
        for e in self.fs.io_errors:
            self.stats["io_error:%s/errno%d" % (e[1], e[2])] += 1
        if nlines > self.reported or nlines < self.reported - ncrash - nflush_err:
            raise Violation("C20", "audit", "lines-vs-reported-events/%s" % ("fewer" if nlines < self.reported else "more"),
                            "the session layer reported %d events to the handler (%d crashes in the run); the log holds %d "
                            "complete records (files: %s)" % (self.reported, ncrash, nlines,
                                                             self.fs.listing(msgdir(self.cfg)) if msgdir(self.cfg) in self.fs.dirs else []))
        self.stats["audited_lines"] += nlines
        self.stats["tolerated_crash_fragments"] += nfrag
        if msgdir(self.cfg) in self.fs.dirs and len(self.fs.listing(msgdir(self.cfg))) > 1:
            self.stats["runs_with_rotation"] += 1

    def digest(self):
        import hashlib
        h = hashlib.sha256(self.world.digest().encode())
        for p in sorted(self.fs.files):
            h.update(p.encode())
            h.update(self.fs.files[p].cache)
        return h.hexdigest()


class SweepCtx(LogCtx):
    """Thorough: for one seeded history, EVERY file-system call boundary (process kill) and, for every
    fsync, EVERY byte offset of the un-synced tail (power loss), each followed by restart, a few
    more events and the audit."""

    def choose(self, rng):
        if self.sent_sweep:
            return None
        self.sent_sweep = True
        # draw a crash-free history with a scratch context
        scratch = LogCtx(dict(self.cfg, n_crashes=0, n_restarts=self.cfg["n_restarts"], sweep_history=True), self.tier)
        hist = []
        while True:
            op = scratch.choose(rng)
            if op is None or len(hist) >= self.cfg["max_ops"]:
                break
            hist.append(op)
            try:
                scratch.step(op)
            except Violation:
                # the crash-free history itself violates: stop drawing; step() re-runs it as the
                # reference run and reports it there (the generator never judges)
                break
        # continuation after the crash + restart: a script that produces records from a fresh boot
        # whatever the history was (connect -> OPEN sent/received -> UPDATEs -> connection lost)
        cfg = self.cfg
        tail = [["fire", 0], ["conn_ok", 0], ["send", 0, cfg["peer_open"], []],
                ["send", 0, rp.encode_keepalive().hex(), []]]
        for _ in range(rng.randrange(1, 4)):
            tail.append(["send", 0, base.gen_update(rng, cfg, True).hex(), []])
        tail.append(["pclose", 0, True])
        # ... and a second, clean restart followed by more records (recovery must also cope with a log
        # that holds an old crash fragment in its middle)
        tail += [["restart"], ["fire", 0], ["conn_ok", 0], ["send", 0, cfg["peer_open"], []],
                 ["send", 0, base.gen_update(rng, cfg, True).hex(), []]]
        return ["sweep", hist, tail]

    def step(self, op):
        if op[0] != "sweep":
            return LogCtx.step(self, op)
        _, hist, tail = op
        cfg = self.cfg
        # reference run: count calls, find fsyncs and their un-synced tails
        ref = LogCtx(cfg, self.tier)
        try:
            for o in hist:
                ref.step(o)
            total = ref.fs.calls
            ref.finish()
        except Violation as v:
            v.detail = {"plain_ops": list(hist), "plain_cfg": dict(cfg, sweep=False, arm_absolute=True)}
            raise
        self.nontrivial = ref.nontrivial
        self.stats["sweep_histories"] += 1
        self.stats["sweep_call_boundaries"] += total

        def one(point, mode, keep, lose):
            plain = [["arm", point, mode, keep, lose]] + hist + [["restart"]] + tail
            try:
                c = LogCtx(cfg, self.tier, arm=(point, mode, keep, lose))
                c.step(["noop"])
                for o in hist:
                    c.step(o)
                    if c.world.exited:
                        break
                if c.world.exited:
                    c.step(["restart"])
                for o in tail:
                    c.step(o)
                c.finish()
            except Violation as v:
                v.detail = {"plain_ops": plain, "plain_cfg": dict(cfg, sweep=False, arm_absolute=True)}
                raise
            self.stats["sweep_runs"] += 1
            for k, v in c.stats.items():
                if k.startswith("crash") or k in ("torn_tail_candidates", "tolerated_crash_fragments"):
                    self.stats[k] += v
            self._h.update(c.digest().encode())

        import hashlib
        self._h = hashlib.sha256()
        for point in range(1, total + 1):
            one(point, "kill", None, False)
        # power loss at every fsync with every surviving prefix length of the un-synced tail
        probe = LogCtx(cfg, self.tier)
        fs = probe.fs
        orig = fs.os.fsync
        sites = []

        def spy(fd):
            f = fs.open_files.get(fd)
            ino = fs.files[f.name]
            sites.append((fs.calls + 1, len(ino.cache) - len(ino.durable)))
            return orig(fd)
        fs.os.fsync = spy
        for o in hist:
            probe.step(o)
        for call_no, tail_len in sites:
            keeps = range(0, tail_len + 1)
            if tail_len > 400:
                # a very long record (NOTIFICATION with kilobytes of data): the first and last 200 offsets and
                # about 200 evenly spaced ones in between instead of every single offset
                keeps = sorted(set(list(range(0, 201)) + list(range(tail_len - 200, tail_len + 1))
                                   + list(range(200, tail_len - 200, max(1, (tail_len - 400) // 200)))))
                self.stats["sweep_long_record_offsets_sampled"] += 1
            for keep in keeps:
                one(call_no, "power", keep, False)
            one(call_no, "power", 0, True)
        self.stats["sweep_fsync_sites"] += len(sites)
        self.trace.append(["sweep", len(hist), total, len(sites)])
        self.cells.add("sweep")

    def finish(self):
        pass

    def digest(self):
        return getattr(self, "_h", None).hexdigest() if getattr(self, "_h", None) else LogCtx.digest(self)


class LogProfile(BaseProfile):
    id = "C20"
    level = "fault_enumeration"
    runs = {"quick": 12000, "thorough": 60000}
    sweeps = {"quick": 48, "thorough": 1000}
    rule = ("one run = history of 1-60 real protocol events (OPEN sent/received, good/malformed/large UPDATEs, KEEPALIVE with "
            "write_keepalive, ROUTE-REFRESH, NOTIFICATION, connection lost/failed) with a rotation threshold forcing 0..k "
            "rotations, up to 4 crashes armed at a file-system call drawn inside the following events (process kill, or power "
            "loss keeping 0..n characters of the un-synced tail, optionally losing a never-synced new file) and clean restarts, "
            "0-2 storage errors (one flush or fsync of the log fails with ENOSPC/EIO, a flush possibly after a partial write; the next attempt succeeds), 0-2 steps of the wall clock (-1 day .. +1 h; file names and 't' follow the wall clock, the reactor does not), audit after every restart and at the end; every (runs/sweeps)-th run is a SWEEP: for one history every "
            "file-system call boundary x kill and every fsync x every byte offset of the un-synced tail (records longer than 400 octets: the first and last 200 offsets and ~200 evenly spaced ones); non-trivial = at "
            "least one record acknowledged; distinct = distinct (op, state, records) sequence")
    probes = ["io_error:flush/errno28", "io_error:fsync/errno28", "io_error:fsync/errno5", "clock_step:back", "clock_step:forward", "restarts", "crash:kill", "crash:power", "crash_in:write", "crash_in:fsync", "crash_in:flush", "crash_in:open",
              "torn_tail_candidates", "tolerated_crash_fragments", "rotations", "runs_with_rotation", "records_acked"]
    components = dict(BaseProfile.components)
    components = {"real": BaseProfile.components["real"] + ["yabgp.handler.default_handler.DefaultHandler", "yabgp.agent.check_msg_config"],
                  "stand_in": BaseProfile.components["stand_in"] + ["file system (sim.simfs: user buffer / page cache / durable, numbered crash points)"]}

    def default_config(self):
        # (the shrinker resets fields to these: the profile is meaningless without the real handler)
        d = dict(base.DEFAULT_CFG)
        d["handler"] = "default"
        d["write_disk"] = True
        return d

    def gen_config(self, rng, idx, tier):
        cfg = dict(base.DEFAULT_CFG)
        cfg["handler"] = "default"
        cfg["write_disk"] = True
        cfg["write_keepalive"] = rng.chance(0.5)
        cfg["rotate_bytes"] = rng.pick([200, 500, 1500, 4000, 20000, 10 ** 9])
        cfg["call_later"] = 0
        cfg["idle_hold_time"] = 1
        cfg["max_ops"] = rng.pick([8, 15, 30, 60])
        cfg["n_crashes"] = rng.pick([0, 1, 1, 2, 4])
        cfg["n_restarts"] = rng.pick([0, 1, 2])
        cfg["p_crash"] = rng.pick([0.05, 0.15, 0.3])
        cfg["p_restart"] = rng.pick([0.03, 0.1])
        cfg["crash_window"] = rng.pick([3, 10, 40, 120])
        if rng.chance(0.2):
            # an IPv6 peer written with upper-case hex digits / in a non-canonical form (the option keeps
            # the operator's spelling)
            cfg["remote_addr"] = rng.pick(["2001:DB8::2", "2001:db8:0:0:0:0:0:2", "2001:0DB8::0002"])
        # a coarse wall clock: two file names chosen at one instant are equal
        cfg["coarse_clock"] = rng.chance(0.25)
        # wall-clock steps (the reactor's time base is monotonic; file names and 't' use the wall clock)
        cfg["clock_steps"] = rng.pick([0, 0, 0, 1, 2])
        # storage errors: a flush (write) or an fsync of the message log fails once with ENOSPC / EIO
        cfg["io_errors"] = rng.pick([0, 0, 0, 1, 2])
        cfg["peer_open"] = rp.encode_open(cfg["remote_as"], rng.pick([0, 90]), "2.2.2.2",
                                          [rp.cap_mp(1, 1), rp.cap_rr(), rp.cap_as4(cfg["remote_as"])]).hex()
        every = max(1, self.runs[tier] // self.sweeps[tier])
        cfg["sweep"] = idx % every == every - 1
        if cfg["sweep"]:
            cfg["max_ops"] = rng.pick([6, 10, 16])
            cfg["n_restarts"] = rng.pick([0, 1])
            cfg["rotate_bytes"] = rng.pick([200, 500, 1500, 10 ** 9])
        return cfg

    def new_ctx(self, cfg, tier):
        if cfg.get("sweep"):
            return SweepCtx(cfg, tier)
        return LogCtx(cfg, tier)


PROFILE = LogProfile()
