"""World: one simulated agent process + its environment, driven by explicit ops.

A run is (config, [op, ...]).  Every op is a fully resolved environment action; an op whose
precondition does not hold is skipped (and counted), so any sub-list of a run is a run.
Nothing in here draws random numbers: generation lives in the profiles, replay executes the
op list verbatim.
"""
import base64
import hashlib
import json

from sim import bootstrap  # noqa: F401  (sys.path, logging, clock)
from sim import simreactor, budget, refpeer, simfs

from oslo_config import cfg

CONF = cfg.CONF

_yabgp_loaded = False
_conf_parsed = False
_app_client = None


_GLOBALS = []      # (container object, pristine deep copy)


_SCALARS = []
_NAMES = []


def _snapshot_globals():
    """Remember the import-time value of every module-level and class-level mutable container of
    the yabgp package.  A (re)boot of the simulated agent process restores them: a new process
    starts from freshly imported modules, and runs must not leak state into each other."""
    import copy
    import sys
    import types
    seen = set()

    def consider(obj):
        if type(obj) in (dict, list, set, bytearray) and id(obj) not in seen:
            seen.add(id(obj))
            try:
                _GLOBALS.append((obj, copy.deepcopy(obj)))
            except Exception:
                pass
    plain = (type(None), bool, int, float, str, bytes, tuple)

    def consider_defaults(fn):
        # mutable default arguments live as long as the process does (the classic shared-default slip)
        if isinstance(fn, (staticmethod, classmethod)):
            fn = fn.__func__
        if isinstance(fn, types.FunctionType) and (fn.__module__ or "").startswith("yabgp"):
            for d in (fn.__defaults__ or ()) + tuple((fn.__kwdefaults__ or {}).values()):
                consider(d)
    for name in sorted(sys.modules):
        if not (name == "yabgp" or name.startswith("yabgp.")) or ".tests" in name:
            continue
        mod = sys.modules[name]
        if mod is None:
            continue
        _NAMES.append((mod, set(vars(mod))))
        for k, v in sorted(vars(mod).items()):
            if k.startswith("__"):
                continue
            consider(v)
            consider_defaults(v)
            if isinstance(v, plain):
                _SCALARS.append((mod, k, v))
            if isinstance(v, type) and getattr(v, "__module__", "").startswith("yabgp"):
                _NAMES.append((v, set(vars(v))))
                for ck, cv in sorted(vars(v).items(), key=lambda kv: kv[0]):
                    consider_defaults(cv)
                    if not ck.startswith("__"):
                        consider(cv)
                        if isinstance(cv, plain):
                            _SCALARS.append((v, ck, cv))


def _restore_globals():
    # module- and class-level names holding plain values (None, numbers, strings, tuples): back to their
    # import-time value; names that did not exist at import time (a cache slot created with `global`): removed
    for owner, k, v in _SCALARS:
        cur = vars(owner).get(k, _SCALARS)
        if cur is not v and cur != v or type(cur) is not type(v):
            try:
                setattr(owner, k, v)
            except (AttributeError, TypeError):
                pass
    import types
    for owner, names in _NAMES:
        for k in [k for k in vars(owner) if k not in names and not k.startswith("__")]:
            cur = vars(owner)[k]
            if isinstance(cur, (types.ModuleType, types.FunctionType, type)) or k in ("time", "os", "open"):
                continue
            try:
                delattr(owner, k)
            except (AttributeError, TypeError):
                pass
    for obj, pristine in _GLOBALS:
        if obj != pristine:
            import copy
            fresh = copy.deepcopy(pristine)
            if isinstance(obj, dict):
                obj.clear()
                obj.update(fresh)
            elif isinstance(obj, (list, bytearray)):
                obj[:] = fresh
            else:
                obj.clear()
                obj.update(fresh)


def _load_yabgp():
    global _yabgp_loaded
    if not _yabgp_loaded:
        import yabgp.agent  # noqa: F401  registers all option groups, imports core + api
        bootstrap.install_clock()
        import netaddr
        netaddr.IPAddress("10.0.0.1").info      # lazy import of the IANA tables (one-off, heavy)
        netaddr.IPAddress("::1").info
        _snapshot_globals()
        _yabgp_loaded = True


DEFAULT_CFG = {
    "local_as": 65001, "remote_as": 65002,
    "local_addr": "10.0.0.1", "remote_addr": "10.0.0.2",
    "connect_retry_time": 30, "hold_time": 180, "keep_alive_time": 60,
    "idle_hold_time": 30, "delay_open_time": 10, "call_later": 15,
    "four_bytes_as": True, "route_refresh": True, "cisco_route_refresh": True,
    "enhanced_route_refresh": True, "graceful_restart": True, "cisco_multi_session": True,
    "add_path": None, "afi_safi": ["ipv4"], "rib": False,
    "username": "admin", "password": "admin",
    "write_disk": False, "write_keepalive": False, "write_dir": "/data/bgp/",
    "rotate_bytes": None,
    "handler": "rec",
    "md5": None, "sockopt_errno": None,
}

ST_NAMES = {1: "IDLE", 2: "CONNECT", 3: "ACTIVE", 4: "OPENSENT", 5: "OPENCONFIRM", 6: "ESTABLISHED"}


def canon(x):
    """Deterministic, JSON-able rendering of handler payloads."""
    if isinstance(x, dict):
        return {"__d": sorted(([canon(k), canon(v)] for k, v in x.items()), key=lambda kv: json.dumps(kv[0], sort_keys=True))}
    if isinstance(x, (list, tuple)):
        return [canon(v) for v in x]
    if isinstance(x, (bytes, bytearray)):
        return {"__b": bytes(x).hex()}
    if isinstance(x, float):
        return {"__f": repr(x)}
    if isinstance(x, int) and not isinstance(x, bool) and x.bit_length() > 256:
        # a number too long for the decimal conversion limit of the interpreter (an agent that turns a
        # long octet string into one integer): kept, but as hex
        return {"__i": hex(x)}
    if isinstance(x, (str, int, bool)) or x is None:
        return x
    return {"__r": type(x).__name__}


class RecHandler(object):
    """Application handler that records every callback (subclass of yabgp's BaseHandler is
    built lazily so that importing this module does not import yabgp)."""


def make_rec_handler(world):
    from yabgp.handler import BaseHandler

    def fault(name):
        """Injected application failure: the armed handler callback raises like a handler whose
        storage is full (op `hfail`)."""
        n = world.handler_fail_in
        only = world.cfg.get("hfail_only")
        if only and name not in only:
            return
        if n is not None:
            n -= 1
            world.handler_fail_in = n if n > 0 else None
            if n <= 0:
                world.note("handler_fault", name)
                raise OSError(28, "No space left on device")

    class _Rec(BaseHandler):
        def __init__(self):
            super(_Rec, self).__init__()

        def init(self):
            world.note("h", "init")

        def on_update_error(self, peer, timestamp, msg):
            world.note("h", "on_update_error", world.cid_of(peer), canon(msg))
            fault("on_update_error")

        def update_received(self, peer, timestamp, msg):
            world.note("h", "update_received", world.cid_of(peer), canon(msg))
            fault("update_received")

        def keepalive_received(self, peer, timestamp):
            world.note("h", "keepalive_received", world.cid_of(peer))
            fault("keepalive_received")

        def open_received(self, peer, timestamp, result):
            world.note("h", "open_received", world.cid_of(peer), canon(result))
            fault("open_received")

        def send_open(self, peer, timestamp, result):
            world.note("h", "send_open", world.cid_of(peer), canon(result))
            fault("send_open")

        def route_refresh_received(self, peer, msg, msg_type):
            world.note("h", "route_refresh_received", world.cid_of(peer), canon(msg), msg_type)
            fault("route_refresh_received")

        def notification_received(self, peer, msg):
            world.note("h", "notification_received", world.cid_of(peer), canon(msg))
            fault("notification_received")

        def on_connection_lost(self, peer):
            world.note("h", "on_connection_lost", world.cid_of(peer))
            if world.cfg.get("hfail_everywhere"):
                fault("on_connection_lost")

        def on_connection_failed(self, peer, msg):
            world.note("h", "on_connection_failed", str(msg))
            if world.cfg.get("hfail_everywhere"):
                fault("on_connection_failed")

        def on_established(self, peer, msg):
            world.note("h", "on_established")
            if world.cfg.get("hfail_everywhere"):
                fault("on_established")

    return _Rec()


class Conn(object):
    """Harness-side view of one simulated TCP connection / attempt."""

    def __init__(self, connector):
        self.c = connector
        self.cid = connector.cid
        self.inbuf = b""          # peer -> agent bytes not yet handed to dataReceived
        self.delivered = b""      # bytes handed to dataReceived
        self.written = b""        # agent -> peer bytes
        self.write_times = []     # (t, nbytes)
        self.dropped = 0          # peer bytes discarded because the agent stopped reading
        self.t_connect = connector.t_started
        self.t_established = None
        self.t_lose = None
        self.t_closed = None

    @property
    def state(self):
        # (if protocol.connectionLost raised, Twisted never tells the connector: its state stays
        # 'connected' although the socket is gone - the transport knows better)
        t = self.c.transport
        if self.c.state == "connected" and t is not None and t.disconnected:
            return "disconnected"
        return self.c.state

    def live(self):
        return self.state in ("connecting", "connected")

    def readable(self):
        t = self.c.transport
        return self.state == "connected" and t is not None and t.connected and not t.disconnecting

    def closing(self):
        t = self.c.transport
        return self.state == "connected" and t is not None and t.connected and t.disconnecting


class World(object):
    budget_base = 20000
    budget_per_byte = 200

    def __init__(self, config=None, fs=None, use_budget=True):
        _load_yabgp()
        self.cfg = dict(DEFAULT_CFG)
        if config:
            self.cfg.update(config)
        self.fs = fs
        self.use_budget = use_budget
        self.log = []             # canonical event log: (n, t, kind, args...)
        self.ops_done = 0
        self.ops_skipped = 0
        self.conns = []
        self.reactor = None
        self.factory = None
        self.handler = None
        self.exited = False
        self.crashed = False
        self.handler_fail_in = None
        self.rest_log = []
        self.boots = 0
        bootstrap.FILE_CLOCK.n = 0
        bootstrap.WallOffset.v = 0.0
        bootstrap.FILE_CLOCK.tick = not self.cfg.get("coarse_clock", False)
        self.boot()

    # ------------------------------------------------------------------ logging
    def note(self, kind, *args):
        t = self.reactor.now if self.reactor is not None else 0.0
        if kind == "connect":
            self.conns.append(Conn(self.reactor.connectors[args[0]]))
        elif kind == "write":
            c = self.conns[args[0]]
            c.written += args[1]
            c.write_times.append((t, len(args[1])))
            args = (args[0], args[1].hex())
        elif kind == "write_dropped":
            args = (args[0], args[1].hex())
        elif kind == "lose":
            self.conns[args[0]].t_lose = t
        elif kind == "closed":
            self.conns[args[0]].t_closed = t
        elif kind == "connect_failed":
            self.conns[args[0]].t_closed = t
        elif kind == "connected":
            self.conns[args[0]].t_established = t
        self.log.append((len(self.log), t, kind) + tuple(args))

    def cid_of(self, proto):
        tr = getattr(proto, "transport", None)
        return getattr(tr, "cid", None)

    def digest(self):
        h = hashlib.sha256()
        for e in self.log:
            h.update(json.dumps(e, sort_keys=True, default=repr).encode())
            h.update(b"\n")
        return h.hexdigest()

    # ------------------------------------------------------------------ boot / restart
    def boot(self):
        """(Re)start the agent process: fresh reactor, fresh CONF, real start-up code."""
        from yabgp.config import get_bgp_config
        import yabgp.agent as agent
        c = self.cfg
        self.boots += 1
        self.exited = False
        r = simreactor.SimReactor(self)
        if self.reactor is not None:
            r.now = self.reactor.now
        # connectors of a previous incarnation die with the process
        self.reactor = r
        self.conns = []
        simreactor.install(r)
        global _conf_parsed
        if not _conf_parsed:
            CONF(args=[], project="yabgp", default_config_files=[])
            _conf_parsed = True
        so = CONF.set_override
        so("local_as", c["local_as"], group="bgp")
        so("remote_as", c["remote_as"], group="bgp")
        so("local_addr", c["local_addr"], group="bgp")
        so("remote_addr", c["remote_addr"], group="bgp")
        so("md5", c.get("md5"), group="bgp")
        so("afi_safi", list(c["afi_safi"]), group="bgp")
        so("rib", c["rib"], group="bgp")
        for k in ("four_bytes_as", "route_refresh", "cisco_route_refresh", "enhanced_route_refresh",
                  "graceful_restart", "cisco_multi_session", "add_path"):
            so(k, c[k], group="bgp")
        if c.get("ext_nexthop") is not None:
            so("ext_nexthop", list(c["ext_nexthop"]), group="bgp")      # ('ext_nexthop =' in the ini file: empty list)
        else:
            CONF.clear_override("ext_nexthop", group="bgp")
        so("running_config", {}, group="bgp")
        so("connect_retry_time", c["connect_retry_time"], group="time")
        so("hold_time", c["hold_time"], group="time")
        so("keep_alive_time", c["keep_alive_time"], group="time")
        so("idle_hold_time", c["idle_hold_time"], group="time")
        so("delay_open_time", c["delay_open_time"], group="time")
        so("bgp_peer_call_later_time", c["call_later"], group="time")
        so("username", c["username"], group="rest")
        so("password", c["password"], group="rest")
        so("write_disk", c["write_disk"], group="message")
        so("write_dir", c["write_dir"], group="message")
        so("write_keepalive", c["write_keepalive"], group="message")
        so("write_msg_max_size", 500, group="message")
        so("last_time", 0, group="keep_alive")
        self.note("boot", self.boots)
        _restore_globals()
        import yabgp.handler.default_handler as dh
        import builtins
        import os as real_os
        if self.fs is not None:
            dh.open = self.fs.open
            dh.os = self.fs.os
            agent.os = self.fs.os
        else:
            dh.__dict__.pop("open", None)
            dh.os = real_os
            agent.os = real_os
        try:
            get_bgp_config()
            if c["handler"] == "default":
                from yabgp.handler.default_handler import DefaultHandler
                agent.check_msg_config()
                if c["rotate_bytes"] is not None:
                    CONF.message.write_msg_max_size = c["rotate_bytes"]
                world = self

                class ObservedDefaultHandler(DefaultHandler):
                    """The real DefaultHandler; every reporting callback is noted at the handler
                    interface first (what the session layer reported), then runs unchanged."""

                def _wrap(name):
                    orig = getattr(DefaultHandler, name)

                    def method(self_, *a, **kw):
                        # same record as the recording handler makes: (name, connection, payload), taken
                        # BEFORE the real handler runs (it may not alter what the session layer keeps)
                        if name in ("update_received", "on_update_error", "open_received", "send_open"):
                            world.note("h", name, world.cid_of(a[0]), canon(a[2]))
                        elif name == "route_refresh_received":
                            world.note("h", name, world.cid_of(a[0]), canon(a[1]), a[2])
                        elif name == "notification_received":
                            world.note("h", name, world.cid_of(a[0]), canon(a[1]))
                        elif name == "on_connection_failed":
                            world.note("h", name, str(a[1]))
                        elif name == "on_established":
                            world.note("h", name)
                        else:
                            world.note("h", name, world.cid_of(a[0]))
                        return orig(self_, *a, **kw)
                    method.__name__ = name
                    return method
                for _n in ("on_update_error", "update_received", "keepalive_received", "send_open", "open_received",
                           "route_refresh_received", "notification_received", "on_connection_lost",
                           "on_connection_failed", "on_established"):
                    setattr(ObservedDefaultHandler, _n, _wrap(_n))
                self.handler = ObservedDefaultHandler()
            else:
                self.handler = make_rec_handler(self)
            agent.prepare_twisted_service(self.handler)
            self.factory = CONF.bgp.running_config["factory"]
        except SystemExit:
            self.exited = True
            self.factory = None
            self.note("exit", "boot")
            if self.fs is not None:
                self.fs.process_exit()      # interpreter shutdown flushes the files that are still open
        except simfs.Crash as c:
            self.on_crash("boot", c)
        except budget.StepBudgetExceeded:
            raise
        except Exception as e:  # start-up must not raise
            self.exited = True
            self.factory = None
            self.note("exc", "boot", type(e).__name__, str(e)[:200])
            if self.fs is not None:
                self.fs.process_exit()

    # ------------------------------------------------------------------ views
    def live_conns(self):
        return [c for c in self.conns if c.live()]

    def conn(self, k):
        live = self.live_conns()
        if k is None or k < 0 or k >= len(live):
            return None
        return live[k]

    def state(self):
        if self.factory is None:
            return "DEAD"
        return ST_NAMES.get(self.factory.fsm.state, str(self.factory.fsm.state))

    def now(self):
        return self.reactor.now

    # ------------------------------------------------------------------ guarded entry into yabgp
    def _enter(self, where, limit_extra, func, *args):
        """Run one callback into the agent; record anything that escapes."""
        if self.exited:
            return None
        try:
            if self.use_budget:
                return budget.guarded(self.budget_base + limit_extra, func, *args)
            return func(*args)
        except budget.StepBudgetExceeded:
            self.note("budget", where, budget.last_count())
        except simfs.Crash as c:
            self.on_crash(where, c)
        except SystemExit:
            self.exited = True
            self.note("exit", where)
        except Exception as e:
            self.note("exc", where, type(e).__name__, str(e)[:200])
        return None

    def on_crash(self, where, c):
        """The armed crash point was reached: the agent process is gone."""
        self.exited = True
        self.crashed = True
        self.factory = None
        self.fs.crash(self.fs.arm_mode, self.fs.arm_keep, getattr(self.fs, "arm_lose_files", False))
        self.note("crash", where.split(":")[0], str(c), self.fs.arm_mode, self.fs.arm_keep)

    # ------------------------------------------------------------------ ops
    def apply(self, op):
        """Execute one op. Returns True if it ran, False if skipped (precondition false)."""
        name = op[0]
        fn = getattr(self, "op_" + name)
        self.note("op", list(op))
        if self.exited and name not in ("restart", "arm"):
            ok = False
        else:
            ok = fn(*op[1:])
        if ok:
            self.ops_done += 1
        else:
            self.ops_skipped += 1
            self.note("skipped")
        self.note("state", self.state())
        return bool(ok)

    def op_advance(self, dt):
        nt = self.reactor.next_time()
        target = self.reactor.now + max(0.0, float(dt))
        if nt is not None and nt < target:
            target = nt
        if target <= self.reactor.now:
            return False
        self.reactor.now = target
        return True

    def op_clockstep(self, delta):
        """The wall clock is stepped by delta seconds (the reactor's time base is monotonic and stays)."""
        bootstrap.WallOffset.v += float(delta)
        self.note("clockstep", float(delta))
        return True

    def op_fire(self, i=0):
        due = self.reactor.due()
        if not due:
            return False
        dc = due[i % len(due)]
        if dc.kind == "thread":
            # Twisted's callFromThread queue is FIFO: deferred calls never overtake each other
            dc = [c for c in due if c.kind == "thread"][0]
        if dc.time > self.reactor.now:
            self.reactor.now = dc.time
        self.note("fire", dc.kind, dc.name(), dc.seq)
        self._enter("timer:" + dc.name(), 0, self.reactor.run_call, dc)
        return True

    def op_conn_ok(self, k=0):
        c = self.conn(k)
        if c is None or c.state != "connecting":
            return False
        self._enter("connect_ok", 0, c.c.sim_established)
        return True

    def op_conn_refuse(self, k=0, text=None):
        c = self.conn(k)
        if c is None or c.state != "connecting":
            return False
        self._enter("connect_refused", 0, c.c.sim_refuse, text)
        return True

    def op_pw(self, k, hexdata):
        """Peer writes bytes on connection k (they sit in the network until delivered)."""
        c = self.conn(k)
        if c is None or c.state != "connected":
            return False
        c.inbuf += bytes.fromhex(hexdata)
        return True

    def op_deliver(self, k=0, n=None):
        """Hand the next n buffered peer bytes (all if n is None) to dataReceived as ONE chunk."""
        c = self.conn(k)
        if c is None or c.state != "connected" or not c.inbuf:
            return False
        if n is None or n <= 0 or n > len(c.inbuf):
            n = len(c.inbuf)
        chunk, c.inbuf = c.inbuf[:n], c.inbuf[n:]
        if not c.readable():
            # the agent called loseConnection(): Twisted stopped reading this socket
            c.dropped += len(chunk)
            self.note("rx_dropped", c.cid, len(chunk))
            return True
        c.delivered += chunk
        self.note("rx", c.cid, chunk.hex())
        self._enter("dataReceived", self.budget_per_byte * len(chunk), c.c.sim_deliver, chunk)
        return True

    def op_send(self, k, hexdata, cuts=None):
        """Convenience: peer writes and everything is delivered now, cut at the given offsets."""
        if not self.op_pw(k, hexdata):
            return False
        c = self.conn(k)
        last = 0
        for cut in sorted(set(cuts or [])):
            if last < cut and c.inbuf:
                self.op_deliver(k, cut - last)
                last = cut
                if self.conn(k) is not c:
                    return True
        if c.inbuf and self.conn(k) is c:
            self.op_deliver(k, None)
        return True

    def op_pclose(self, k=0, clean=True):
        c = self.conn(k)
        if c is None or c.state != "connected":
            return False
        c.dropped += len(c.inbuf)
        c.inbuf = b""
        who = "agent" if c.closing() else "peer"
        self._enter("connectionLost", 0, c.c.sim_connection_lost, bool(clean), who)
        return True

    def op_cdone(self, k=0):
        """The agent's own loseConnection() on connection k completes."""
        c = self.conn(k)
        if c is None or not c.closing():
            return False
        c.dropped += len(c.inbuf)
        c.inbuf = b""
        self._enter("connectionLost", 0, c.c.sim_connection_lost, True, "agent")
        return True

    def op_rest(self, method, path, cred="ok", body=None, query=None):
        global _app_client
        if self.exited:
            return False
        from yabgp.api.app import app
        if _app_client is None:
            _app_client = app.test_client()
        headers = {}
        user, pw = self.cfg["username"], self.cfg["password"]
        if "@" in cred:
            # '<shape>@<accept>': the request also carries an Accept header
            cred, acc = cred.split("@", 1)
            headers["Accept"] = {"json": "application/json, text/javascript", "any": "*/*", "html": "text/html"}[acc]
        if cred == "ok":
            pair = (user, pw)
        elif cred == "baduser":
            pair = (user + "x", pw)
        elif cred == "badpass":
            pair = (user, pw + "x")
        elif cred == "empty":
            pair = ("", "")
        elif cred == "unknown_nopw":
            pair = (user + "x", "")
        elif cred == "known_nopw":
            pair = (user, "" if pw != "" else "x")
        elif cred == "case":
            pair = (user.upper() if user.upper() != user else user.lower(), pw)
        elif cred == "user_prefix":
            # a proper prefix of the configured user name with the right password
            pair = (user[:max(1, len(user) // 2)] if len(user) > 1 else user + "x", pw)
        elif cred == "user_infix":
            pair = (user[1:] if len(user) > 1 else user + "x", pw)
        elif cred == "shifted":
            # same concatenation of user and password, split at another place
            pair = (user[:-1], user[-1:] + pw) if len(user) > 1 else (user + pw[:1], pw[1:] + "x")
        elif cred == "user_is_both":
            pair = (user + pw, "")
        elif cred == "user_nonascii":
            # another user name: the configured one with a non-ASCII letter inside / behind it
            pair = (user[:1] + "\u00e9" + user[1:], pw)
        elif cred == "user_nonascii_tail":
            pair = (user + "\u20ac", pw)
        else:
            pair = None
        if pair is not None and cred != "ok" and pair == (user, pw):
            pair = (pair[0] + "x", pair[1])      # the shape coincides with the configured pair: make it differ
        if pair is not None:
            headers["Authorization"] = "Basic " + base64.b64encode(("%s:%s" % pair).encode()).decode()
        kw = {"method": method, "headers": headers}
        if body is not None:
            kw["json"] = body
        if query:
            kw["query_string"] = query
        res = {}

        def call():
            resp = _app_client.open(path, **kw)
            res["status"] = resp.status_code
            data = resp.get_data()
            try:
                res["json"] = json.loads(data) if data else None
            except ValueError:
                res["json"] = None
                res["raw"] = data[:200].decode("latin1")
        self._enter("rest:" + path, 50000, call)
        self.rest_log.append((len(self.log), method, path, cred, res.get("status"), res.get("json")))
        self.note("rest", method, path, cred, res.get("status"), canon(res.get("json")))
        self.last_rest = res
        return True

    def op_hqueue(self, kind="notification", arg=None):
        """The application handler pushes a message on its internal queue (BaseHandler.inter_mq); yabgp
        sends it when the next KEEPALIVE (not the first of the connection) arrives."""
        if self.exited or self.handler is None:
            return False
        if kind == "notification":
            self.handler.inter_mq.put({"type": "notification", "msg": {"error": 6, "sub_error": int(arg or 4), "data": b""}})
        elif kind == "bad_update":
            # an UPDATE the encoder cannot build (IPv6 address as NEXT_HOP)
            self.handler.inter_mq.put({"type": "update", "msg": {"attr": {1: 0, 2: [], 3: "fe80::1", 5: 100},
                                                              "nlri": ["10.78.%d.0/24" % int(arg or 1)], "withdraw": []}})
        else:
            self.handler.inter_mq.put({"type": "update", "msg": {"attr": {1: 0, 2: [], 3: "10.0.0.1", 5: 100},
                                                              "nlri": ["10.77.%d.0/24" % int(arg or 1)], "withdraw": []}})
        self.note("hqueue", kind)
        return True

    def op_sockfail(self, errno_=12):
        """setsockopt() on the socket of the NEXT connection attempt fails (ENOMEM, ENOPROTOOPT ...); only
        agents that set a socket option (TCP-MD5) notice."""
        if self.exited:
            return False
        self.sockopt_fail_next = int(errno_)
        self.note("sockfail_armed", int(errno_))
        return True

    def take_sockfail(self):
        e, self.sockopt_fail_next = getattr(self, "sockopt_fail_next", None), None
        return e

    def op_hfail(self, n=1):
        """The n-th application-handler callback from now raises OSError(ENOSPC)."""
        if self.exited:
            return False
        self.handler_fail_in = max(1, int(n))
        return True

    # ---- storage ops (logsim)
    def op_restart(self):
        """Start the agent process again.  If it is still running this is a clean stop first (the
        interpreter flushes open files on exit); after a crash only what the crash model let
        survive is there."""
        if self.fs is not None and not self.exited:
            self.fs.process_exit()
        self.crashed = False
        self.boot()
        return True

    def op_arm(self, after_calls, mode="kill", keep=None, lose_files=False):
        """Arm a crash `after_calls` file-system calls from now: 'kill' = process kill, 'power' =
        power loss keeping `keep` characters of every un-synced tail."""
        if self.fs is None or self.exited:
            return False
        self.fs.arm(after_calls, mode, keep)
        self.fs.arm_lose_files = bool(lose_files)
        return True

    def op_ioerr(self, after_calls, errno=28, partial=0):
        """The first flush or fsync of the message log at or after `after_calls` file-system calls from now
        fails with OSError(errno) (28 ENOSPC, 5 EIO); for a flush, `partial` bytes of the buffered data
        reach the file before the error.  One-shot: the next attempt succeeds (space was freed)."""
        if self.fs is None or self.exited:
            return False
        self.fs.arm_io_error(after_calls, errno, partial)
        return True


def run_ops(config, ops, fs_factory=None, use_budget=True, monitor=None):
    """Replay helper: build a World, apply ops, return it."""
    fs = fs_factory() if fs_factory else None
    w = World(config, fs=fs, use_budget=use_budget)
    for op in ops:
        w.apply(op)
        if monitor is not None:
            monitor(w, op)
    return w


__all__ = ["World", "run_ops", "DEFAULT_CFG", "refpeer", "canon"]
