"""Stand-in for simplejson (absent in the sandbox): yabgp uses dump/loads only."""
from json import dump, dumps, load, loads, JSONDecodeError  # noqa: F401
