"""Stand-in for the Twisted package: the deterministic simulator IS the reactor.
Only the contract points listed in /verif/DESIGN.md Appendix B are provided."""
__version__ = "sim-20.3-contract"
