class Site(object):
    """Stand-in: the REST API is driven through Flask's WSGI test client by the simulator."""

    def __init__(self, resource, *a, **kw):
        self.resource = resource
