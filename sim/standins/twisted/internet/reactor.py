"""The module object yabgp imports as ``reactor``.  Every call is forwarded to the
SimReactor of the World that is current in this process (sim.simreactor.CURRENT)."""
from sim import simreactor as _sr


def callLater(delay, func, *args, **kw):
    return _sr.current().callLater(delay, func, *args, **kw)


def callFromThread(func, *args, **kw):
    return _sr.current().callFromThread(func, *args, **kw)


def connectTCP(host, port, factory, timeout=30, bindAddress=None):
    return _sr.current().connectTCP(host, port, factory, timeout, bindAddress)


def listenTCP(port, factory, backlog=50, interface=''):
    return _sr.current().listenTCP(port, factory, backlog, interface)


def suggestThreadPoolSize(size):
    return _sr.current().suggestThreadPoolSize(size)


def getThreadPool():
    return _sr.current().getThreadPool()


def run(installSignalHandlers=True):
    return _sr.current().run()


def stop():
    return _sr.current().stop()


def seconds():
    return _sr.current().seconds()
