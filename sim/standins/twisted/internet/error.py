"""Subset of twisted.internet.error used by yabgp and by the simulator."""


class AlreadyCalled(ValueError):
    """Tried to cancel an already-called event."""


class AlreadyCancelled(ValueError):
    """Tried to cancel an already-cancelled event."""


class ConnectError(Exception):
    def __init__(self, osError=None, string=""):
        self.osError = osError
        Exception.__init__(self, string)

    def __str__(self):
        s = self.__doc__ or self.__class__.__name__
        if self.osError:
            s = "%s: %s" % (s, self.osError)
        if self.args and self.args[0]:
            s = "%s: %s" % (s, self.args[0])
        s = "%s." % s
        return s


class ConnectionRefusedError(ConnectError):
    """Connection was refused by other side"""


class TimeoutError(ConnectError):
    """User timeout caused connection failure"""


class UserError(ConnectError):
    """User aborted connection"""


class ConnectionClosed(Exception):
    """Connection was closed, whether cleanly or non-cleanly."""


class ConnectionLost(ConnectionClosed):
    """Connection to the other side was lost in a non-clean fashion"""

    def __str__(self):
        return "Connection to the other side was lost in a non-clean fashion."


class ConnectionDone(ConnectionClosed):
    """Connection was closed cleanly"""

    def __str__(self):
        return "Connection was closed cleanly."


class NotConnectingError(RuntimeError):
    """The Connector was not connecting when it was asked to stop connecting"""
