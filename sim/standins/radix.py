"""Stand-in for py-radix (C extension absent in the sandbox).  Dict-backed; only the calls
yabgp.core.protocol makes (add, delete, search_exact, search_best, iteration)."""
import ipaddress


class RadixNode(object):
    def __init__(self, prefix):
        net = ipaddress.ip_network(prefix, strict=False)
        self.network = str(net.network_address)
        self.prefixlen = net.prefixlen
        self.prefix = "%s/%d" % (self.network, self.prefixlen)
        self.family = 2 if net.version == 4 else 10
        self.data = {}
        self._net = net


class Radix(object):
    def __init__(self):
        self._nodes = {}

    @staticmethod
    def _key(prefix):
        net = ipaddress.ip_network(prefix, strict=False)
        return "%s/%d" % (net.network_address, net.prefixlen)

    def add(self, prefix):
        k = self._key(prefix)
        node = self._nodes.get(k)
        if node is None:
            node = self._nodes[k] = RadixNode(k)
        return node

    def delete(self, prefix):
        k = self._key(prefix)
        if k not in self._nodes:
            raise KeyError("match not found")
        del self._nodes[k]

    def search_exact(self, prefix):
        return self._nodes.get(self._key(prefix))

    def search_best(self, prefix):
        try:
            net = ipaddress.ip_network(prefix, strict=False)
        except ValueError:
            return None
        best = None
        for k in sorted(self._nodes):
            node = self._nodes[k]
            if node._net.version == net.version and net.subnet_of(node._net):
                if best is None or node.prefixlen > best.prefixlen:
                    best = node
        return best

    def nodes(self):
        return [self._nodes[k] for k in sorted(self._nodes)]

    def prefixes(self):
        return sorted(self._nodes)

    def __iter__(self):
        return iter(self.nodes())
