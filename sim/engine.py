"""Runner: seeded generation, verbatim replay, minimisation, parallel batches, evidence.

One integer decides everything: VERIF_SEED -> per-run seed sha256(VERIF_SEED, property,
run_index) -> one random.Random from which the profile draws the configuration and every op.
Replay never consults a PRNG: it executes the recorded (config, ops) verbatim.
"""
import collections
import hashlib
import json
import os
import random
import subprocess
import sys
import time
import traceback

from sim import bootstrap

VERIF = bootstrap.VERIF
KNOWN_FILE = os.path.join(VERIF, "known_findings.json")
REPLAY_DIR = os.environ.get("VERIF_REPLAY_DIR") or os.path.join(VERIF, "replays")
EVIDENCE_DIR = os.environ.get("VERIF_EVIDENCE_DIR") or os.path.join(VERIF, "evidence")


class Violation(Exception):
    def __init__(self, prop, oracle, cell, message, detail=None):
        Exception.__init__(self, message)
        self.prop = prop
        self.oracle = oracle
        if len(cell) > 200:
            # signatures identify a class of violations: keep them short and stable
            cell = cell[:160] + "~" + hashlib.sha256(cell.encode()).hexdigest()[:8]
        self.cell = cell
        self.message = message
        self.detail = detail
        self.signature = "%s|%s|%s" % (prop, oracle, cell)


class HarnessError(Exception):
    pass


def run_seed(prop, verif_seed, idx):
    h = hashlib.sha256(("%d/%s/%d" % (verif_seed, prop, idx)).encode()).digest()
    return int.from_bytes(h[:8], "big")


class Rng(random.Random):
    """random.Random with a few helpers; every draw of a run goes through one instance."""

    def pick(self, seq):
        return seq[self.randrange(len(seq))]

    def weighted(self, pairs):
        """pairs: list of (item, weight) in a FIXED order."""
        tot = 0.0
        for _, w in pairs:
            tot += w
        x = self.random() * tot
        acc = 0.0
        for item, w in pairs:
            acc += w
            if x < acc:
                return item
        return pairs[-1][0]

    def chance(self, p):
        return self.random() < p


# ------------------------------------------------------------------------- known findings

def load_known():
    """-> (open: {signature: entry}, fixed: [entry])"""
    if not os.path.exists(KNOWN_FILE):
        return {}, []
    with open(KNOWN_FILE) as fh:
        data = json.load(fh)
    open_, fixed = {}, []
    for e in data.get("findings", []):
        if e.get("status") == "fixed":
            fixed.append(e)
        else:
            open_[e["signature"]] = e
    return open_, fixed


# ------------------------------------------------------------------------- one run

class RunResult(object):
    __slots__ = ("idx", "seed", "cfg", "ops", "violation", "stats", "cells", "trace_hash",
                 "nontrivial", "digest", "sim_time", "nops", "skipped", "error")

    def __init__(self):
        self.idx = None
        self.seed = None
        self.cfg = None
        self.ops = []
        self.violation = None       # (signature, message, detail)
        self.stats = collections.Counter()
        self.cells = set()
        self.trace_hash = None
        self.nontrivial = False
        self.digest = None
        self.sim_time = 0.0
        self.nops = 0
        self.skipped = 0
        self.error = None


def execute(profile, cfg, ops=None, rng=None, tier="quick", observer=None):
    """Run one case.  Generation mode: rng given, ops None.  Replay mode: ops given."""
    res = RunResult()
    res.cfg = cfg
    ctx = profile.new_ctx(cfg, tier)
    executed = []
    auto = getattr(ctx, "auto_op", None)
    if observer is not None:
        _step = ctx.step

        def _observed(op):
            w = getattr(ctx, "world", None)
            n = len(w.log) if w is not None else 0
            try:
                _step(op)
            finally:
                w2 = getattr(ctx, "world", None)
                observer(op, (w2.log[n:] if w2 is w else w2.log) if w2 is not None else [])
        ctx.step = _observed
    try:
        try:
            if ops is None:
                while not getattr(ctx, "done", False):
                    op = ctx.choose(rng)
                    if op is None:
                        break
                    executed.append(op)
                    if len(executed) > 20000:
                        raise HarnessError("generator of %s does not terminate" % profile.id)
                    ctx.step(op)
            else:
                for op in ops:
                    executed.append(op)
                    ctx.step(op)
                    if auto is not None and getattr(ctx, "auto_started", False):
                        break       # (older replay files carry the continuation: it is regenerated below)
            # deterministic continuation owned by the profile (C02: the cooperative peer).  It is not part
            # of the recorded op list, so a cut-down list always continues with a genuine continuation.
            n_auto = 0
            while auto is not None and not getattr(ctx, "done", False):
                op = auto()
                if op is None:
                    break
                n_auto += 1
                if n_auto > 5000:
                    raise HarnessError("continuation of %s does not terminate" % profile.id)
                ctx.step(op)
            ctx.finish()
        except Violation as v:
            res.violation = (v.signature, v.message, v.detail)
    finally:
        res.ops = executed
        res.stats = ctx.stats
        res.cells = ctx.cells
        res.trace_hash = ctx.trace_hash()
        res.nontrivial = ctx.nontrivial
        res.digest = ctx.digest()
        res.sim_time = ctx.sim_time()
        res.nops = ctx.nops()
        res.skipped = ctx.nskipped()
    return res


def generate(profile, prop, verif_seed, idx, tier):
    seed = run_seed(prop, verif_seed, idx)
    rng = Rng(seed)
    cfg = profile.gen_config(rng, idx, tier)
    res = execute(profile, cfg, None, rng, tier)
    res.idx = idx
    res.seed = seed
    return res


def replay_equivalence(prop, verif_seed, n, tier="quick"):
    """Self-test: executing the recorded (config, ops) of a generated run must reproduce the run -
    same event-log digest, same verdict, same oracle-side counters (counters prefixed 'gen:' belong
    to the generator).  Catches oracles whose state is advanced by the generator instead of by step()."""
    from sim import profiles
    profile = profiles.get(prop)
    bad = []
    for idx in range(n):
        r1 = generate(profile, prop, verif_seed, idx, tier)
        r2 = execute(profile, r1.cfg, r1.ops, None, tier)
        s1 = {k: v for k, v in r1.stats.items() if not k.startswith("gen:")}
        s2 = {k: v for k, v in r2.stats.items() if not k.startswith("gen:")}
        v1 = r1.violation[0] if r1.violation else None
        v2 = r2.violation[0] if r2.violation else None
        if r1.digest != r2.digest or v1 != v2 or s1 != s2 or r1.trace_hash != r2.trace_hash:
            diff = sorted(k for k in set(s1) | set(s2) if s1.get(k) != s2.get(k))
            bad.append((idx, r1.digest == r2.digest, v1, v2, diff[:6]))
    return bad


# ------------------------------------------------------------------------- minimisation

def shrink(profile, cfg, ops, signature, tier, max_execs=1500, deadline_s=40):
    """ddmin over the op list, then config fields back to default, then byte/number arguments,
    while the SAME violation signature persists."""
    t_end = time.time() + deadline_s
    execs = [0]

    def fails(c, o):
        if execs[0] >= max_execs or time.time() > t_end:
            return False
        execs[0] += 1
        try:
            r = execute(profile, c, o, None, tier)
        except Exception:
            return False
        return r.violation is not None and r.violation[0] == signature

    ops = list(ops)
    # ddmin
    n = 2
    while len(ops) >= 2:
        chunk = max(1, len(ops) // n)
        reduced = False
        i = 0
        while i < len(ops):
            cand = ops[:i] + ops[i + chunk:]
            if cand != ops and fails(cfg, cand):
                ops = cand
                n = max(n - 1, 2)
                reduced = True
            else:
                i += chunk
        if not reduced:
            if chunk == 1:
                break
            n = min(len(ops), n * 2)
    # config -> defaults
    defaults = profile.default_config()
    for k in sorted(cfg):
        if k in defaults and cfg[k] != defaults[k]:
            c2 = dict(cfg)
            c2[k] = defaults[k]
            if fails(c2, ops):
                cfg = c2
    # argument simplification (profile-specific, optional)
    simp = getattr(profile, "simplify_op", None)
    if simp is not None:
        changed = True
        while changed:
            changed = False
            for i, op in enumerate(ops):
                for cand_op in simp(op):
                    cand = ops[:i] + [cand_op] + ops[i + 1:]
                    if fails(cfg, cand):
                        ops = cand
                        changed = True
                        break
    return cfg, ops, execs[0]


# ------------------------------------------------------------------------- batches

def _merge_counter(dst, src):
    for k, v in src.items():
        dst[k] += v


def work_block(args):
    """Executed in a worker process."""
    prop, tier, verif_seed, start, end, max_viol = args
    import faulthandler
    watchdog = int(os.environ.get("VERIF_WATCHDOG", "900"))     # per run: re-armed before every run of the block
    from sim import profiles
    profile = profiles.get(prop)
    out = {"runs": 0, "stats": collections.Counter(), "cells": set(), "hashes": set(),
           "violations": [], "sim_time": 0.0, "nops": 0, "skipped": 0, "samples": [],
           "nontrivial_runs": 0, "digests": [], "errors": []}
    for idx in range(start, end):
        faulthandler.dump_traceback_later(watchdog, exit=True)
        try:
            r = generate(profile, prop, verif_seed, idx, tier)
        except Exception:
            out["errors"].append((idx, traceback.format_exc()[-1500:]))
            continue
        out["runs"] += 1
        _merge_counter(out["stats"], r.stats)
        out["cells"] |= r.cells
        if r.nontrivial:
            out["nontrivial_runs"] += 1
            out["hashes"].add(r.trace_hash)
        out["sim_time"] += r.sim_time
        out["nops"] += r.nops
        out["skipped"] += r.skipped
        out["digests"].append((idx, r.digest))
        if len(out["samples"]) < 2 and r.nontrivial:
            out["samples"].append({"run_index": idx, "config": profile.config_diff(r.cfg),
                                   "ops": r.ops[:40]})
        if r.violation is not None and len(out["violations"]) < max_viol:
            out["violations"].append({"idx": idx, "seed": r.seed, "signature": r.violation[0],
                                      "message": r.violation[1], "detail": r.violation[2],
                                      "cfg": r.cfg, "ops": r.ops})
        elif r.violation is not None:
            out["stats"]["violations_not_kept"] += 1
    faulthandler.cancel_dump_traceback_later()
    return out


def run_batch(prop, tier, verif_seed, nruns, jobs, block=None):
    from concurrent.futures import ProcessPoolExecutor
    import multiprocessing
    if block is None:
        block = max(10, min(500, nruns // (jobs * 8) or 1))
    tasks = []
    s = 0
    while s < nruns:
        e = min(nruns, s + block)
        tasks.append((prop, tier, verif_seed, s, e, 20))
        s = e
    results = []
    if jobs <= 1:
        for t in tasks:
            results.append(work_block(t))
    else:
        ctx = multiprocessing.get_context("fork")
        with ProcessPoolExecutor(max_workers=jobs, mp_context=ctx) as ex:
            futs = [ex.submit(work_block, t) for t in tasks]
            for f in futs:
                results.append(f.result(timeout=3600))
    # merge in index order: output independent of worker count
    agg = {"runs": 0, "stats": collections.Counter(), "cells": set(), "hashes": set(),
           "violations": [], "sim_time": 0.0, "nops": 0, "skipped": 0, "samples": [],
           "nontrivial_runs": 0, "errors": []}
    dg = hashlib.sha256()
    for r in results:
        agg["runs"] += r["runs"]
        _merge_counter(agg["stats"], r["stats"])
        agg["cells"] |= r["cells"]
        agg["hashes"] |= r["hashes"]
        agg["violations"].extend(r["violations"])
        agg["sim_time"] += r["sim_time"]
        agg["nops"] += r["nops"]
        agg["skipped"] += r["skipped"]
        agg["nontrivial_runs"] += r["nontrivial_runs"]
        agg["errors"].extend(r["errors"])
        if len(agg["samples"]) < 3:
            agg["samples"].extend(r["samples"][:3 - len(agg["samples"])])
        for idx, d in r["digests"]:
            dg.update(("%d:%s\n" % (idx, d)).encode())
    agg["digest"] = dg.hexdigest()
    return agg


# ------------------------------------------------------------------------- replay files

def write_replay(prop, v, cfg, ops, tier, digest):
    os.makedirs(REPLAY_DIR, exist_ok=True)
    sig_h = hashlib.sha256(v["signature"].encode()).hexdigest()[:10]
    path = os.path.join(REPLAY_DIR, "%s-%s-%d.json" % (prop, sig_h, v["seed"]))
    with open(path, "w") as fh:
        json.dump({"property": prop, "seed": v["seed"], "run_index": v["idx"], "tier": tier,
                   "signature": v["signature"], "message": v["message"], "detail": v.get("detail"),
                   "config": cfg, "ops": ops, "digest": digest}, fh, indent=1, sort_keys=True,
                  default=repr)
    return path


def replay_file(path, tier=None):
    from sim import profiles
    with open(path) as fh:
        rep = json.load(fh)
    profile = profiles.get(rep["property"])
    r = execute(profile, rep["config"], rep["ops"], None, tier or rep.get("tier", "quick"))
    return rep, r


def verify_replay_fresh(path):
    """Re-execute the replay file in a fresh interpreter; it must fail the same way."""
    env = dict(os.environ)
    env["PYTHONHASHSEED"] = "0"
    p = subprocess.run([sys.executable, os.path.join(VERIF, "check.py"), "--replay", path, "--quiet"],
                       env=env, stdout=subprocess.PIPE, stderr=subprocess.STDOUT, timeout=600)
    return p.returncode == 1 and b"REPLAY-REPRODUCED" in p.stdout, p.stdout.decode("latin1")[-2000:]


# ------------------------------------------------------------------------- evidence

def write_evidence(prop, tier, verif_seed, level, agg, wall, profile, violations, known_seen, extra=None):
    os.makedirs(EVIDENCE_DIR, exist_ok=True)
    runs = agg["runs"]
    cov = {
        "evaluations": runs,
        "distinct_nontrivial": len(agg["hashes"]),
        "rule": profile.rule,
        "samples": agg["samples"] or [{"note": "no non-trivial run in this batch"}],
        "nontrivial_runs": agg["nontrivial_runs"],
        "ops_executed": agg["nops"],
        "ops_skipped": agg["skipped"],
        "simulated_seconds": round(agg["sim_time"], 3),
        "runs_per_hour": int(runs / wall * 3600) if wall > 0 else 0,
        "cells_visited": len(agg["cells"]),
        "cells": sorted(agg["cells"])[:400],
        "fault_and_event_counts": {k: agg["stats"][k] for k in sorted(agg["stats"])},
        "batch_digest": agg["digest"],
        "known_findings_seen": known_seen,
        "components": profile.components,
    }
    zero = [p for p in getattr(profile, "probes", []) if agg["stats"].get(p, 0) == 0]
    cov["probes_at_zero"] = zero
    if extra:
        cov.update(extra)
    ev = {
        "property_id": prop, "tier": tier, "seed": verif_seed, "level": level,
        "coverage": cov,
        "assumptions": profile.assumptions,
        "wall_s": round(wall, 3),
        "violations": violations,
    }
    path = os.path.join(EVIDENCE_DIR, "%s.json" % prop)
    tmp = path + ".tmp"
    with open(tmp, "w") as fh:
        json.dump(ev, fh, indent=1, sort_keys=True, default=repr)
    os.replace(tmp, path)
    return path


# ------------------------------------------------------------------------- top level

def check(prop, tier, verif_seed, jobs, nruns=None, quiet=False):
    from sim import profiles
    profile = profiles.get(prop)
    if nruns is None:
        nruns = profile.runs[tier]
    known, fixed = load_known()
    t0 = time.time()
    agg = run_batch(prop, tier, verif_seed, nruns, jobs)
    extra = None
    post = getattr(profile, "post_batch", None)
    if post is not None:
        extra = post(tier, verif_seed, jobs, agg)
    if agg["errors"]:
        for idx, tb in agg["errors"][:3]:
            print("HARNESS-ERROR property=%s run_index=%d\n%s" % (prop, idx, tb))
        wall = time.time() - t0
        write_evidence(prop, tier, verif_seed, profile.level, agg, wall, profile, 0, [], extra)
        return 2
    # group violations by signature, in run order
    by_sig = collections.OrderedDict()
    for v in agg["violations"]:
        by_sig.setdefault(v["signature"], []).append(v)
    known_seen = []
    new = []
    for sig, vs in by_sig.items():
        if sig in known and known[sig]["property"] == prop:
            known_seen.append(sig)
            print("KNOWN-FINDING: property=%s %s -- %s" % (prop, sig, known[sig].get("what", "")))
        else:
            new.append((sig, vs))
    nviol = 0
    t_shrink_end = time.time() + 150
    for sig, vs in new[:6]:
        v = min(vs, key=lambda x: len(x["ops"]))
        cfg, ops = v["cfg"], v["ops"]
        d = v.get("detail")
        if isinstance(d, dict) and "plain_ops" in d:
            # the violation was found inside a composite op (sweep member): continue with the
            # equivalent plain run if it reproduces
            try:
                r0 = execute(profile, d["plain_cfg"], d["plain_ops"], None, tier)
                if r0.violation is not None and r0.violation[0] == sig:
                    cfg, ops = d["plain_cfg"], d["plain_ops"]
                    v = dict(v, cfg=cfg, ops=ops)
            except Exception:
                pass
        try:
            cfg, ops, nexec = shrink(profile, cfg, ops, sig, tier,
                                     deadline_s=max(5, min(40, t_shrink_end - time.time())))
        except Exception:
            nexec = -1
        r = execute(profile, cfg, ops, None, tier)
        if r.violation is None or r.violation[0] != sig:
            # should not happen (replay is deterministic); fall back to the unshrunk case
            cfg, ops = v["cfg"], v["ops"]
            r = execute(profile, cfg, ops, None, tier)
        if r.violation is None:
            print("HARNESS-ERROR property=%s violation %s did not replay in-process" % (prop, sig))
            try:
                path = write_replay(prop, dict(v, message="(did not replay)", detail=None), cfg, ops, tier, None)
                print("  case kept for diagnosis: %s (run_index %s)" % (path, v.get("run_index")))
            except Exception:
                pass
            return 2
        v = dict(v)
        v["message"] = r.violation[1]
        v["detail"] = r.violation[2]
        path = write_replay(prop, v, cfg, ops, tier, r.digest)
        ok, out = verify_replay_fresh(path)
        if not ok:
            print("HARNESS-ERROR property=%s replay %s did not reproduce in a fresh interpreter\n%s"
                  % (prop, path, out))
            return 2
        nviol += 1
        if not quiet:
            print("  signature: %s" % sig)
            print("  message  : %s" % r.violation[1])
            print("  minimised: %d ops (%d seen in %d runs; %d shrink executions)"
                  % (len(ops), len(vs), agg["runs"], nexec))
        print("VIOLATION property=%s replay=%s" % (prop, path))
    nviol += max(0, len(new) - 6)
    wall = time.time() - t0
    write_evidence(prop, tier, verif_seed, profile.level, agg, wall, profile, nviol, known_seen, extra)
    if not quiet:
        print("%s %s seed=%d runs=%d nontrivial=%d distinct=%d cells=%d ops=%d sim_s=%.0f wall=%.1fs (%d runs/h) digest=%s"
              % (prop, tier, verif_seed, agg["runs"], agg["nontrivial_runs"], len(agg["hashes"]),
                 len(agg["cells"]), agg["nops"], agg["sim_time"], wall,
                 int(agg["runs"] / wall * 3600), agg["digest"][:16]))
        zero = [p for p in getattr(profile, "probes", []) if agg["stats"].get(p, 0) == 0]
        if zero and tier == "thorough":
            print("WARNING probes at zero: %s" % ", ".join(zero))
    return 1 if nviol else 0
