"""In-memory file system with a volatile / durable split and numbered crash points.

Three layers per file, as on a real system:
    user-space buffer of each open file object   (lost when the process dies)
    OS page cache  (`cache`)                      (survives a process kill, not a power loss)
    stable storage (`durable`)                    (what the last fsync made durable)

Every call into the file system is a numbered crash point: when the armed call number is
reached, Crash (a BaseException) is raised *instead of* executing the call.
"""
import posixpath

BUFSIZE = 8192


class Crash(BaseException):
    pass


class Inode(object):
    def __init__(self):
        self.cache = b""           # bytes, as on a real disk: a crash can cut inside a multi-byte character
        self.durable = b""
        self.entry_durable = False     # directory entry made durable (by an fsync of the file)


class SimFile(object):
    def __init__(self, fs, path, mode):
        self.fs = fs
        self.name = path
        self.mode = mode
        self.buf = ""
        self.closed = False
        self.fd = fs._new_fd(self)
        self._pos = 0

    # ---- writing
    def write(self, s):
        self.fs._call("write", self.name)
        if self.closed:
            raise ValueError("I/O operation on closed file.")
        if "a" not in self.mode and "w" not in self.mode:
            raise OSError("not writable")
        if not isinstance(s, str):
            raise TypeError("write() argument must be str, not %s" % type(s).__name__)
        self.buf += s
        if len(self.buf) >= BUFSIZE:
            # (storage errors are injected at explicit flush()/fsync() calls only: what a failing implicit flush
            # inside write() leaves in the text layer's and the buffered writer's buffers is not modelled)
            self._flush()
        return len(s)

    def _flush(self, may_fail=False):
        if self.buf:
            ino = self.fs.files[self.name]
            if may_fail and self.fs._io_error_due("flush"):
                # ENOSPC/EIO from write(2): a prefix of the buffered bytes may have reached the file, the
                # rest stays in the buffered writer (CPython keeps it and retries at the next flush)
                data = self.buf.encode("utf-8", "surrogateescape")
                k = min(len(data), self.fs.io_partial or 0)
                ino.cache += data[:k]
                self.buf = data[k:].decode("utf-8", "surrogateescape")
                raise OSError(self.fs.io_errno, "injected I/O error (write)")
            ino.cache += self.buf.encode("utf-8", "surrogateescape")
            self.buf = ""

    def flush(self):
        self.fs._call("flush", self.name)
        if self.closed:
            raise ValueError("I/O operation on closed file.")
        self._flush(may_fail=True)

    def fileno(self):
        return self.fd

    def close(self):
        if self.closed:
            return
        self.fs._call("close", self.name)
        self._flush()
        self.closed = True
        self.fs.open_files.pop(self.fd, None)

    # ---- reading
    def read(self):
        self.fs._call("read", self.name)
        data = self.fs.files[self.name].cache[self._pos:]
        self._pos += len(data)
        return data.decode("utf-8")          # text mode: raises UnicodeDecodeError like the real thing

    def __iter__(self):
        self.fs._call("read", self.name)
        data = self.fs.files[self.name].cache.decode("utf-8")
        for line in data.splitlines(True):
            yield line

    def __enter__(self):
        return self

    def __exit__(self, *a):
        self.close()
        return False


class _Path(object):
    def __init__(self, fs):
        self.fs = fs
        self.join = posixpath.join
        self.dirname = posixpath.dirname
        self.basename = posixpath.basename

    def exists(self, p):
        self.fs._call("exists", p)
        p = self.fs.norm(p)
        return p in self.fs.dirs or p in self.fs.files

    def getsize(self, p):
        self.fs._call("getsize", p)
        p = self.fs.norm(p)
        if p not in self.fs.files:
            raise FileNotFoundError(p)
        return len(self.fs.files[p].cache)

    def isdir(self, p):
        return self.fs.norm(p) in self.fs.dirs


class _OS(object):
    """What yabgp modules see as ``os``."""

    def __init__(self, fs):
        self.fs = fs
        self.path = _Path(fs)
        self.environ = {"HOME": "/home/sim"}
        self.sep = "/"

    def makedirs(self, p, exist_ok=False):
        self.fs._call("makedirs", p)
        p = self.fs.norm(p)
        if p in self.fs.dirs and not exist_ok:
            raise FileExistsError(p)
        while p and p != "/":
            self.fs.dirs.add(p)
            p = posixpath.dirname(p)

    def listdir(self, p):
        self.fs._call("listdir", p)
        p = self.fs.norm(p)
        if p not in self.fs.dirs:
            raise FileNotFoundError(p)
        out = []
        for f in self.fs.files:
            if posixpath.dirname(f) == p:
                out.append(posixpath.basename(f))
        # real listdir order is arbitrary: hand it out in a scrambled but deterministic order
        return sorted(out, key=lambda n: (hash_name(n), n))

    def fsync(self, fd):
        self.fs._call("fsync", fd)
        f = self.fs.open_files.get(fd)
        if f is None:
            raise OSError(9, "Bad file descriptor")
        if self.fs._io_error_due("fsync"):
            # the data stay in the page cache, nothing new became durable
            raise OSError(self.fs.io_errno, "injected I/O error (fsync)")
        ino = self.fs.files[f.name]
        ino.durable = ino.cache
        ino.entry_durable = True
        self.fs.fsyncs += 1
        self.fs.on_fsync(f.name, ino)

    def getpid(self):
        return 4242


def hash_name(n):
    h = 0
    for ch in n:
        h = (h * 131 + ord(ch)) % 1000003
    return h


class SimFS(object):
    def __init__(self):
        self.files = {}
        self.dirs = set(["/"])
        self.open_files = {}
        self.next_fd = 3
        self.calls = 0
        self.armed = None          # call number at which to crash
        self.arm_mode = None
        self.arm_keep = None
        self.fsyncs = 0
        self.os = _OS(self)
        self.crashes = []          # per crash: {path: (len, ended_with_newline)}
        self.acked = []            # (path, line) of every record made durable by a completed fsync
        self.call_log = []
        self.counts = {}
        self.io_armed = None       # I/O error at the first flush/fsync whose call number is >= this
        self.io_errno = 28
        self.io_partial = 0
        self.io_errors = []        # (call number, 'flush'|'fsync', errno)

    # ---- plumbing
    def norm(self, p):
        p = posixpath.normpath(p)
        return p

    def _new_fd(self, f):
        fd = self.next_fd
        self.next_fd += 1
        self.open_files[fd] = f
        return fd

    def _call(self, what, arg=None):
        self.calls += 1
        self.counts[what] = self.counts.get(what, 0) + 1
        if self.armed is not None and self.calls >= self.armed:
            self.armed = None
            self.crash_call = what
            raise Crash(what)

    def arm_io_error(self, after_calls, errno=28, partial=0):
        self.io_armed = self.calls + max(1, int(after_calls))
        self.io_errno = int(errno)
        self.io_partial = max(0, int(partial))

    def _io_error_due(self, what):
        if self.io_armed is not None and self.calls >= self.io_armed:
            self.io_armed = None
            self.io_errors.append((self.calls, what, self.io_errno))
            return True
        return False

    def open(self, path, mode="r", *a, **kw):
        self._call("open", path)
        path = self.norm(path)
        if posixpath.dirname(path) not in self.dirs:
            raise FileNotFoundError(path)
        if "r" in mode and "+" not in mode:
            if path not in self.files:
                raise FileNotFoundError(path)
        else:
            if path not in self.files:
                self.files[path] = Inode()
            elif "w" in mode:
                self.files[path].cache = b""
        return SimFile(self, path, mode)

    def on_fsync(self, path, ino):
        lines = ino.durable.split(b"\n")
        if len(lines) >= 2:
            self.acked.append((path, lines[-2].decode("utf-8", "replace")))

    # ---- crash / exit semantics
    def arm(self, after_calls, mode, keep):
        self.armed = self.calls + max(1, int(after_calls))
        self.arm_mode = mode
        self.arm_keep = keep

    def process_exit(self):
        """Clean exit: the interpreter flushes every open file object."""
        for f in list(self.open_files.values()):
            f._flush()
            f.closed = True
        self.open_files = {}

    def crash(self, mode="kill", keep=None, lose_unsynced_files=False):
        """kill : the process dies; user-space buffers are lost, the page cache survives.
        power: additionally only `keep` bytes of each file's un-synced tail survive (torn
        write); a file whose directory entry was never synced may disappear entirely."""
        for f in list(self.open_files.values()):
            f.closed = True
        self.open_files = {}
        if mode == "power":
            for path in sorted(self.files):
                ino = self.files[path]
                tail = ino.cache[len(ino.durable):] if ino.cache.startswith(ino.durable) else b""
                k = len(tail) if keep is None else max(0, min(len(tail), keep))
                ino.cache = ino.durable + tail[:k]
                if lose_unsynced_files and not ino.entry_durable and not ino.durable:
                    del self.files[path]
        snap = {}
        for path in sorted(self.files):
            c = self.files[path].cache
            snap[path] = (len(c), c.endswith(b"\n") or c == b"")
        self.crashes.append(snap)

    def listing(self, d):
        d = self.norm(d)
        return sorted(posixpath.basename(f) for f in self.files if posixpath.dirname(f) == d)

    def content(self, path):
        """File content as bytes."""
        return self.files[self.norm(path)].cache
