"""Virtual-time reactor, connector and transport (stand-in for Twisted's TCP client side).

All nondeterminism is external: nothing here draws random numbers or reads a real clock.
The World (sim.world) decides which due call runs, when a connect resolves, how peer
bytes are cut into chunks, and when a close completes.
"""
from twisted.internet import error

_CURRENT = None


def current():
    if _CURRENT is None:
        raise RuntimeError("no simulated reactor is installed")
    return _CURRENT


def install(reactor):
    global _CURRENT
    _CURRENT = reactor


class Failure(object):
    """Minimal twisted.python.failure.Failure."""

    def __init__(self, value):
        self.value = value
        self.type = type(value)

    def getErrorMessage(self):
        return str(self.value)

    def check(self, *types):
        for t in types:
            if isinstance(self.value, t):
                return t
        return None

    def trap(self, *types):
        t = self.check(*types)
        if not t:
            raise self.value
        return t

    def __repr__(self):
        return "<Failure %s>" % type(self.value).__name__


class DelayedCall(object):
    def __init__(self, reactor, time, seq, func, args, kw, kind="timer"):
        self.reactor = reactor
        self.time = time
        self.seq = seq
        self.func = func
        self.args = args
        self.kw = kw
        self.kind = kind
        self.cancelled = 0
        self.called = 0

    def getTime(self):
        return self.time

    def cancel(self):
        if self.cancelled:
            raise error.AlreadyCancelled
        elif self.called:
            raise error.AlreadyCalled
        self.cancelled = 1
        self.reactor._calls.remove(self)

    def reset(self, secondsFromNow):
        if self.cancelled:
            raise error.AlreadyCancelled
        elif self.called:
            raise error.AlreadyCalled
        if secondsFromNow < 0:
            raise AssertionError("%s is not greater than or equal to 0 seconds" % (secondsFromNow,))
        self.time = self.reactor.now + secondsFromNow
        # Twisted re-heapifies; order among equal times is unspecified -> scheduler's choice.
        self.reactor._seq += 1
        self.seq = self.reactor._seq

    def delay(self, secondsLater):
        if self.cancelled:
            raise error.AlreadyCancelled
        elif self.called:
            raise error.AlreadyCalled
        self.time += secondsLater

    def active(self):
        return not (self.cancelled or self.called)

    def name(self):
        f = self.func
        return getattr(f, "__name__", None) or type(f).__name__


class Address(object):
    def __init__(self, host, port):
        self.type = "TCP"
        self.host = host
        self.port = port

    def __repr__(self):
        return "IPv4Address(TCP, %r, %d)" % (self.host, self.port)


class FakeSocket(object):
    def __init__(self, fail_errno=None):
        self.sockopts = []
        self.fail_errno = fail_errno

    def setsockopt(self, *a):
        if self.fail_errno:
            # e.g. a kernel without CONFIG_TCP_MD5SIG: ENOPROTOOPT
            raise OSError(self.fail_errno, "Protocol not available")
        self.sockopts.append(a)


class PendingTransport(object):
    """What connector.transport is while the attempt is in progress (in Twisted the client transport
    object exists, with its socket, as soon as connect() was called)."""

    def __init__(self, connector):
        self.connector = connector
        self.connected = 0
        self.disconnecting = 0
        self.disconnected = 0
        world = connector.reactor.world
        one_off = getattr(world, "take_sockfail", lambda: None)()
        self.sock = FakeSocket(getattr(world, "cfg", {}).get("sockopt_errno") or one_off)

    def getHandle(self):
        return self.sock


class SimTransport(object):
    """Client-side TCP transport as seen by the protocol."""

    def __init__(self, connector):
        self.connector = connector
        self.reactor = connector.reactor
        self.cid = connector.cid
        self.connected = 1
        self.disconnecting = 0
        self.disconnected = 0
        self.protocol = None
        self.nodelay = None
        self.sock = FakeSocket()
        self.lose_calls = 0

    # ---- what yabgp calls
    def write(self, data):
        if not isinstance(data, (bytes, bytearray)):
            raise TypeError("Data must be bytes")
        if not self.connected:
            self.reactor.world.note("write_dropped", self.cid, bytes(data))
            return
        self.reactor.world.note("write", self.cid, bytes(data))

    def writeSequence(self, seq):
        self.write(b"".join(seq))

    def loseConnection(self):
        self.lose_calls += 1
        if self.connected and not self.disconnecting:
            self.disconnecting = 1
            self.reactor.world.note("lose", self.cid)

    def abortConnection(self):
        self.loseConnection()

    def setTcpNoDelay(self, enabled):
        self.nodelay = enabled

    def getTcpNoDelay(self):
        return self.nodelay

    def setTcpKeepAlive(self, enabled):
        pass

    def getHost(self):
        return Address(self.connector.local_host, 40000 + self.cid)

    def getPeer(self):
        return Address(self.connector.host, self.connector.port)

    def getHandle(self):
        return self.sock


class SimConnector(object):
    """twisted.internet.tcp.Connector contract: connecting -> connected -> disconnected."""

    def __init__(self, reactor, cid, host, port, factory, timeout, bindAddress):
        self.reactor = reactor
        self.cid = cid
        self.host = host
        self.port = port
        self.factory = factory
        self.timeout = timeout
        self.bindAddress = bindAddress
        # not bound to an address: the kernel picks the source address, per connection (cfg local_hosts)
        hosts = getattr(reactor.world, "cfg", {}).get("local_hosts") or ["10.0.0.1"]
        self.local_host = hosts[cid % len(hosts)]
        if bindAddress and bindAddress[0] not in (None, "", "0.0.0.0"):
            self.local_host = bindAddress[0]
        self.state = "disconnected"
        self.transport = None
        self.protocol = None
        self.timeoutID = None
        self.factoryStarted = 0
        self.t_started = reactor.now
        self.aborted = False      # agent called stopConnecting/disconnect/loseConnection
        self.closed_by = None     # 'agent' | 'peer' | 'refused' | 'timeout' | 'user'

    # ---- IConnector
    def connect(self):
        if self.state != "disconnected":
            raise RuntimeError("can't connect in this state")
        self.state = "connecting"
        if not self.factoryStarted:
            self.factory.doStart()
            self.factoryStarted = 1
        if self.timeout is not None:
            self.timeoutID = self.reactor.callLater(self.timeout, self._timed_out, kind="connect_timeout")
        self.transport = PendingTransport(self)
        self.reactor.world.note("connect", self.cid, self.host, self.port, self.timeout)
        self.factory.startedConnecting(self)

    def _timed_out(self):
        self.timeoutID = None
        self.closed_by = "timeout"
        self._connection_failed(Failure(error.TimeoutError()))

    def stopConnecting(self):
        if self.state != "connecting":
            raise error.NotConnectingError("we're not trying to connect")
        self.aborted = True
        self.closed_by = "user"
        self.reactor.world.note("stop_connecting", self.cid)
        self._connection_failed(Failure(error.UserError()))

    def disconnect(self):
        if self.state == "connecting":
            self.stopConnecting()
        elif self.state == "connected":
            self.aborted = True
            self.transport.loseConnection()

    def getDestination(self):
        return Address(self.host, self.port)

    # ---- driven by the World
    def _cancel_timeout(self):
        if self.timeoutID is not None:
            try:
                self.timeoutID.cancel()
            except ValueError:
                pass
            self.timeoutID = None

    def _connection_failed(self, reason):
        self._cancel_timeout()
        self.transport = None
        self.state = "disconnected"
        self.reactor.world.note("connect_failed", self.cid, type(reason.value).__name__)
        self.factory.clientConnectionFailed(self, reason)
        if self.state == "disconnected":
            self.factory.doStop()
            self.factoryStarted = 0

    def sim_refuse(self, text=None):
        """text: the operating system's error string (localised on a real host, hence not ASCII)."""
        self.closed_by = "refused"
        if text:
            self._connection_failed(Failure(error.ConnectionRefusedError(111, text)))
        else:
            self._connection_failed(Failure(error.ConnectionRefusedError()))

    def sim_established(self):
        """The peer accepted the SYN."""
        self._cancel_timeout()
        self.state = "connected"
        self.transport = SimTransport(self)
        self.reactor.world.note("connected", self.cid)
        p = self.factory.buildProtocol(Address(self.host, self.port))
        self.protocol = p
        self.transport.protocol = p
        if p is None:
            self.transport.loseConnection()
            return
        p.makeConnection(self.transport)

    def sim_deliver(self, data):
        self.protocol.dataReceived(data)

    def sim_connection_lost(self, clean, who):
        """Connection ends: peer close/reset (who='peer') or completion of the agent's own
        loseConnection (who='agent')."""
        t = self.transport
        t.connected = 0
        t.disconnected = 1
        if self.closed_by is None:
            self.closed_by = who
        reason = Failure(error.ConnectionDone() if clean else error.ConnectionLost())
        self.reactor.world.note("closed", self.cid, who, bool(clean))
        p = self.protocol
        if p is not None:
            p.connectionLost(reason)
        self.state = "disconnected"
        self.factory.clientConnectionLost(self, reason)
        if self.state == "disconnected":
            self.factory.doStop()
            self.factoryStarted = 0


class ThreadPool(object):
    def __init__(self):
        self.size = None


class SimReactor(object):
    def __init__(self, world):
        self.world = world
        self.now = 0.0
        self._seq = 0
        self._calls = []
        self.connectors = []
        self.listening = []
        self.threadpool = ThreadPool()
        self.running = False

    # ---- IReactorTime
    def seconds(self):
        return self.now

    def callLater(self, delay, func, *args, **kw):
        kind = kw.pop("kind", "timer")
        assert callable(func), "%s is not callable" % (func,)
        assert delay >= 0, "%s is not greater than or equal to 0 seconds" % (delay,)
        self._seq += 1
        dc = DelayedCall(self, self.now + delay, self._seq, func, args, kw, kind)
        self._calls.append(dc)
        return dc

    def callFromThread(self, func, *args, **kw):
        # Twisted queues it and wakes the reactor: runs on a later turn, never re-entrantly.
        kw = dict(kw)
        kw["kind"] = "thread"
        self.callLater(0, func, *args, **kw)

    def getDelayedCalls(self):
        return [c for c in self._calls if c.active()]

    # ---- IReactorTCP
    def connectTCP(self, host, port, factory, timeout=30, bindAddress=None):
        c = SimConnector(self, len(self.connectors), host, port, factory, timeout, bindAddress)
        self.connectors.append(c)
        c.connect()
        return c

    def listenTCP(self, port, factory, backlog=50, interface=""):
        self.listening.append((port, interface, factory))
        return object()

    # ---- threads / run
    def suggestThreadPoolSize(self, size):
        self.threadpool.size = size

    def getThreadPool(self):
        return self.threadpool

    def run(self, installSignalHandlers=True):
        self.running = True

    def stop(self):
        self.running = False

    # ---- used by the World
    def next_time(self):
        if not self._calls:
            return None
        return min(c.time for c in self._calls)

    def due(self):
        """Calls due at the earliest pending instant, in insertion (seq) order."""
        t = self.next_time()
        if t is None:
            return []
        return sorted((c for c in self._calls if c.time == t), key=lambda c: c.seq)

    def run_call(self, dc):
        self._calls.remove(dc)
        dc.called = 1
        dc.func(*dc.args, **dc.kw)
