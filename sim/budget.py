"""Deterministic step budget around callbacks into yabgp (Python 3.12 sys.monitoring).

BRANCH and JUMP events are enabled *locally* on every code object of the yabgp package (not on
the harness, not on third-party libraries, whose lazy caches would make counts depend on what
ran earlier in the process).  While a guarded call runs, each event counts one step; once the
limit is passed StepBudgetExceeded is raised inside yabgp -- a BaseException, so that yabgp's
blanket ``except Exception`` clauses cannot swallow it.  Every loop iteration in yabgp costs
at least one event, so an endless loop is cut after a bounded, replayable number of steps; no
wall clock is involved.
"""
import sys
import types

mon = sys.monitoring
TOOL = 4
_EVENTS = mon.events.BRANCH | mon.events.JUMP


class StepBudgetExceeded(BaseException):
    pass


class _State(object):
    count = 0
    limit = 0
    on = False
    registered = False
    peak = 0
    nmods = -1
    ncodes = 0


S = _State()
_seen = set()


def _cb(code, offset, dest):
    if S.on:
        S.count += 1
        if S.count > S.limit:
            raise StepBudgetExceeded("step budget %d exceeded" % S.limit)


def _register():
    if not S.registered:
        try:
            mon.use_tool_id(TOOL, "verif-step-budget")
        except ValueError:
            pass
        mon.register_callback(TOOL, mon.events.BRANCH, _cb)
        mon.register_callback(TOOL, mon.events.JUMP, _cb)
        S.registered = True


def _instrument_code(code):
    if code in _seen:
        return
    _seen.add(code)
    mon.set_local_events(TOOL, code, _EVENTS)
    S.ncodes += 1
    for c in code.co_consts:
        if isinstance(c, types.CodeType):
            _instrument_code(c)


def _walk(obj, modname, depth=0):
    if isinstance(obj, types.FunctionType):
        if obj.__module__ and obj.__module__.startswith("yabgp"):
            _instrument_code(obj.__code__)
    elif isinstance(obj, (staticmethod, classmethod)):
        _walk(obj.__func__, modname, depth)
    elif isinstance(obj, property):
        for f in (obj.fget, obj.fset, obj.fdel):
            if f is not None:
                _walk(f, modname, depth)
    elif isinstance(obj, type) and depth < 3:
        if getattr(obj, "__module__", "") and obj.__module__.startswith("yabgp"):
            for v in list(vars(obj).values()):
                _walk(v, modname, depth + 1)


def instrument():
    """(Re)scan loaded yabgp modules; cheap when nothing new was imported."""
    n = len(sys.modules)
    if n == S.nmods:
        return
    S.nmods = n
    _register()
    for name in sorted(sys.modules):
        if name == "yabgp" or name.startswith("yabgp."):
            mod = sys.modules[name]
            if mod is None or ".tests" in name:
                continue
            for v in list(vars(mod).values()):
                _walk(v, name)


def guarded(limit, func, *args, **kw):
    """Run func under a budget of `limit` yabgp branch/jump events.  Nested use runs under the
    outer budget."""
    if S.on:
        return func(*args, **kw)
    instrument()
    S.count = 0
    S.limit = limit
    S.on = True
    try:
        return func(*args, **kw)
    finally:
        S.on = False
        if S.count > S.peak:
            S.peak = S.count


def last_count():
    return S.count
