"""Process-wide set-up: import paths (stand-ins first, then the repository's CURRENT working
tree), logging off, virtual clock shims.  Imported before anything from yabgp."""
import logging
import os
import sys

HERE = os.path.dirname(os.path.abspath(__file__))
VERIF = os.path.dirname(HERE)
REPO = os.environ.get("VERIF_REPO", "/repo")
STANDINS = os.path.join(HERE, "standins")

sys.dont_write_bytecode = True
for p in (REPO, STANDINS, VERIF):
    while p in sys.path:
        sys.path.remove(p)
sys.path[0:0] = [VERIF, STANDINS, REPO]

logging.disable(logging.CRITICAL)

EPOCH = 1700000000.0


class WallOffset(object):
    """Steps of the wall clock (NTP step, operator setting the date, VM restored from a snapshot): added to
    what yabgp reads as time.time(); the reactor's own (monotonic) time base is not affected."""
    v = 0.0


class Clock(object):
    """What yabgp modules see as the ``time`` module."""

    def __init__(self, tick=False):
        self.tick = tick
        self.n = 0

    def time(self):
        from sim import simreactor
        r = simreactor._CURRENT
        now = r.now if r is not None else 0.0
        if self.tick:
            # strictly increasing micro-tick: two file names created at one virtual instant
            # differ, as they would on a real clock.
            self.n += 1
            return round(EPOCH + WallOffset.v + now + self.n * 1e-6, 6)
        return EPOCH + WallOffset.v + now

    def sleep(self, s):
        raise RuntimeError("real sleep inside the simulation")

    def __getattr__(self, name):
        import time as _t
        if name in ("strftime", "gmtime", "localtime", "asctime", "ctime"):
            return getattr(_t, name)
        raise AttributeError(name)


CLOCK = Clock()
FILE_CLOCK = Clock(tick=True)
_installed = False


def install_clock():
    """Replace the module attribute ``time`` in every yabgp module that reads the wall clock."""
    global _installed
    import yabgp.core.fsm
    import yabgp.core.protocol
    import yabgp.api.utils
    import yabgp.api.v1
    import yabgp.handler.default_handler
    yabgp.core.fsm.time = CLOCK
    yabgp.core.protocol.time = CLOCK
    yabgp.api.utils.time = CLOCK
    yabgp.api.v1.time = CLOCK
    yabgp.handler.default_handler.time = FILE_CLOCK
    _installed = True


def repo_path():
    return REPO
