#!/bin/bash
# Run every quick check on the current /repo tree; print one line per check. Exit 1 if any is not clean.
cd "$(dirname "$0")"
rc=0
for P in C01 C02 C03 C04 C05 C10 C12 C13 C16 C18 C19 C20; do
  out=$(./check.py $P --tier quick "$@" 2>&1); code=$?
  echo "$P exit=$code $(echo "$out" | grep -E "^$P quick" | cut -c1-140)"
  if [ $code -ne 0 ]; then rc=1; echo "$out" | grep -E "VIOLATION|HARNESS|signature|message" | head -6; fi
done
exit $rc
