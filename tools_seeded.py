#!/venv/bin/python
"""Evaluate an independently written breaking change (see /verif/seeded/).

  tools_seeded.py eval <patch.diff> <demo.py> <PROP>[,<PROP>...] [--runs N] [--tier quick]

1. copies /repo (tracked files) to a scratch directory outside /repo and /verif,
2. confirms the demo PASSes (exit 0) on the clean copy,
3. applies the patch, confirms the repository test suite still passes and the demo FAILs (exit != 0),
4. runs the named checks against the patched copy (VERIF_REPO) and reports exit code + signatures,
5. removes the scratch directory.
Prints one JSON object (also usable as the 'what you ran' part of meta.json).
"""
import json
import os
import shutil
import subprocess
import sys
import tempfile

VERIF = os.path.dirname(os.path.abspath(__file__))
PY = "/venv/bin/python"


def sh(cmd, cwd=None, env=None, timeout=3600):
    p = subprocess.run(cmd, cwd=cwd, env=env, stdout=subprocess.PIPE, stderr=subprocess.STDOUT, timeout=timeout)
    return p.returncode, p.stdout.decode("latin1")


def run_all(args):
    """tools_seeded.py all [--runs N]: re-evaluate every stored change against its property's check."""
    import glob
    from concurrent.futures import ThreadPoolExecutor
    par = 1
    if "--parallel" in args:
        i = args.index("--parallel")
        par = int(args[i + 1])
        args = args[:i] + args[i + 2:]
    bad = 0
    metas = sorted(glob.glob(os.path.join(VERIF, "seeded", "*", "meta.json")))

    def one(d):
        meta = json.load(open(d))
        base = os.path.dirname(d)
        cmd = [PY, os.path.abspath(__file__), "eval", os.path.join(base, "patch.diff"), os.path.join(base, "demo.py"),
               meta["breaks_property"]] + args
        return d, sh(cmd, timeout=7200)

    if "--newest-first" in args:
        args.remove("--newest-first")
        metas.sort(key=lambda m: -json.load(open(m)).get("round", 1))
    ex = ThreadPoolExecutor(max_workers=par)
    results = ex.map(one, metas)          # reported as they arrive, in list order
    for d, (rc, o) in results:
        meta = json.load(open(d))
        try:
            res = json.loads(o)
            ck = res["checks"][meta["breaks_property"]]
            ok = res["demo_clean_exit"] == 0 and res["tests_pass_with_patch"] and res["demo_patched_exit"] != 0 and ck["caught"]
            print("%-8s %s  %s  %s" % (meta["id"], meta["breaks_property"], "CAUGHT" if ok else "NOT-CAUGHT(exit %s)" % ck["exit"],
                                      (ck["signatures"] or [""])[0][:100]), flush=True)
        except Exception:
            ok = False
            print("%-8s error: %s" % (meta["id"], o[-300:]), flush=True)
        bad += 0 if ok else 1
    print("seeded changes: %d not caught" % bad)
    return 1 if bad else 0


def run_refresh(ids):
    """tools_seeded.py refresh <id>...: re-evaluate the named stored changes and rewrite the 'confirmed' and
    'check_result' parts of their meta.json."""
    for sid in ids:
        base = os.path.join(VERIF, "seeded", sid)
        meta = json.load(open(os.path.join(base, "meta.json")))
        prop = meta["breaks_property"]
        rc, o = sh([PY, os.path.abspath(__file__), "eval", os.path.join(base, "patch.diff"), os.path.join(base, "demo.py"), prop], timeout=7200)
        ev = json.loads(o)
        ck = ev["checks"][prop]
        meta["confirmed"] = {"demo_on_clean_tree_exit": ev["demo_clean_exit"], "patch_applies_to_repo_HEAD": ev["patch_applies"],
                             "repository_tests_with_patch": ev["tests_with_patch"], "demo_with_patch_exit": ev["demo_patched_exit"]}
        meta["check_result"] = {"check": prop, "exit": ck["exit"], "caught": ck["caught"], "signatures": ck["signatures"][:4],
                                "messages": ck["messages"][:2]}
        json.dump(meta, open(os.path.join(base, "meta.json"), "w"), indent=1)
        print(sid, "caught" if ck["caught"] else "NOT caught", ck["signatures"][:2], flush=True)
    return 0


def run_hits(args):
    """tools_seeded.py hits: for every stored change, how many runs of the quick batch violate (margin of
    the detection; no shrinking)."""
    import glob
    import re
    from importlib import import_module
    for d in sorted(glob.glob(os.path.join(VERIF, "seeded", "*", "meta.json"))):
        meta = json.load(open(d))
        base = os.path.dirname(d)
        prop = meta["breaks_property"]
        tmp = tempfile.mkdtemp(prefix="yabgp-hits-")
        dst = os.path.join(tmp, "repo")
        try:
            sh(["git", "-C", "/repo", "worktree", "add", "--detach", dst, "HEAD"])
            rc, o = sh(["git", "-C", dst, "apply", os.path.join(base, "patch.diff")])
            env = dict(os.environ)
            env["VERIF_REPO"] = dst
            sys.path.insert(0, VERIF)
            n = args[0] if args else None
            if n is None:
                env2 = dict(env)
                rc, o = sh([PY, "-c", "import sys; sys.path.insert(0, %r); from sim import profiles; print(profiles.get(%r).runs['quick'])" % (VERIF, prop)], env=env2)
                n = o.strip().splitlines()[-1]
            rc, o = sh([PY, os.path.join(VERIF, "tools_sigs.py"), prop, str(n)], env=env, timeout=3600)
            m = re.search(r"violating_runs (\d+)", o)
            print("%-8s %s  violating runs: %s of %s" % (meta["id"], prop, m.group(1) if m else "?", n), flush=True)
        finally:
            sh(["git", "-C", "/repo", "worktree", "remove", "--force", dst])
            shutil.rmtree(tmp, ignore_errors=True)
    return 0


def main():
    args = sys.argv[1:]
    if args and args[0] == "all":
        return run_all(args[1:])
    if args and args[0] == "refresh":
        return run_refresh(args[1:])
    if args and args[0] == "hits":
        return run_hits(args[1:])
    if len(args) < 4 or args[0] != "eval":
        print(__doc__)
        return 2
    patch, demo, props = os.path.abspath(args[1]), os.path.abspath(args[2]), args[3].split(",")
    runs = None
    tier = "quick"
    if "--runs" in args:
        runs = args[args.index("--runs") + 1]
    if "--tier" in args:
        tier = args[args.index("--tier") + 1]
    tmp = tempfile.mkdtemp(prefix="yabgp-seeded-")
    out = {"patch": patch, "demo": demo}
    try:
        dst = os.path.join(tmp, "repo")
        rc, o = sh(["git", "-C", "/repo", "worktree", "add", "--detach", dst, "HEAD"])
        if rc != 0:
            out["error"] = "worktree: " + o[-300:]
            print(json.dumps(out, indent=1))
            return 2
        shutil.copy(demo, os.path.join(dst, os.path.basename(demo)))
        rc, o = sh([PY, os.path.basename(demo)], cwd=dst, timeout=600)
        out["demo_clean_exit"] = rc
        out["demo_clean_tail"] = o.strip().splitlines()[-1:] if o.strip() else []
        rc, o = sh(["git", "-C", dst, "apply", patch])
        out["patch_applies"] = rc == 0
        if rc != 0:
            out["error"] = o[-400:]
        else:
            rc, o = sh([PY, "-m", "pytest", "-q", "-p", "no:cacheprovider", "-x", "--deselect", "run_test.py::test"], cwd=dst, timeout=1200)
            last = o.strip().splitlines()[-1] if o.strip() else ""
            out["tests_with_patch"] = last
            out["tests_pass_with_patch"] = " failed" not in last and "passed" in last
            rc, o = sh([PY, os.path.basename(demo)], cwd=dst, timeout=600)
            out["demo_patched_exit"] = rc
            out["demo_patched_tail"] = o.strip().splitlines()[-2:] if o.strip() else []
            out["checks"] = {}
            for prop in props:
                env = dict(os.environ)
                env["VERIF_REPO"] = dst
                env["VERIF_EVIDENCE_DIR"] = os.path.join(tmp, "evidence")
                env["VERIF_REPLAY_DIR"] = os.path.join(tmp, "replays")
                cmd = [PY, os.path.join(VERIF, "check.py"), prop, "--tier", tier]
                if runs:
                    cmd += ["--runs", runs]
                rc, o = sh(cmd, env=env, timeout=7200)
                sigs = [l.strip()[len("signature:"):].strip() for l in o.splitlines() if l.strip().startswith("signature:")]
                msgs = [l.strip()[len("message  :"):].strip()[:300] for l in o.splitlines() if l.strip().startswith("message")]
                out["checks"][prop] = {"exit": rc, "caught": rc == 1 and ("VIOLATION property=%s" % prop) in o,
                                       "signatures": sigs, "messages": msgs[:3],
                                       "summary": [l for l in o.splitlines() if l.startswith(prop + " ")][-1:]}
        print(json.dumps(out, indent=1))
    finally:
        sh(["git", "-C", "/repo", "worktree", "remove", "--force", os.path.join(tmp, "repo")])
        shutil.rmtree(tmp, ignore_errors=True)
    return 0


if __name__ == "__main__":
    sys.exit(main())
